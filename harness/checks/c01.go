package checks

import (
	"fmt"
	"strconv"
	"strings"

	"kvqlverif/drive"
	"kvqlverif/gen"
	"kvqlverif/refeval"
	"kvqlverif/refstore"
	"kvqlverif/rt"
)

// C01 — SELECT returns exactly the pairs satisfying WHERE, once each, in key
// order. Reference oracle: refeval over the generator's own tree.

type c01 struct{ rt.Base }

func init() { rt.Register(&c01{}) }

func (c01) ID() string { return "C01" }

func (c01) NumCases(tier string) int {
	if tier == "thorough" {
		return 600000
	}
	return 20000
}

func (c01) Rule() string {
	return "typed predicate trees (depth<=4) of the documented core language over 7 store families, printed with random parenthesisation/case/and-spelling; each judged by the reference evaluator on every stored pair, in row and batch mode, twice per mode on fresh plans. Non-trivial: the predicate is evaluable on every pair (strict or short-circuit grade) and the store is non-empty; distinct by hash of (statement text, store)."
}

func (c01) Assumptions() []string {
	return []string{
		"Storage contract of DESIGN section 1 (snapshot cursors, ascending byte-wise order, nil value = missing)",
		"reference evaluator refeval (Appendix A) is the trusted base; constructs it leaves undefined are not judged",
		"short-circuit grade (defined only under left-to-right evaluation of and/or) is judged only when the engine returned rows rather than an error",
	}
}

func (c01) Gates(tier string, m map[string]int64) []rt.Gate {
	return []rt.Gate{
		rt.GateMin("stores of integers beyond 2^53 / near the int64 limits", m, "bigint_store", 300),
		rt.GateMin("scan kind empty chosen", m, "scan:empty", 1),
		rt.GateMin("scan kind mget chosen", m, "scan:mget", 1),
		rt.GateMin("scan kind prefix chosen", m, "scan:prefix", 1),
		rt.GateMin("scan kind range chosen", m, "scan:range", 1),
		rt.GateMin("scan kind full chosen", m, "scan:full", 1),
		rt.GateMin("empty result sets seen", m, "result:empty", 1),
		rt.GateMin("partial result sets seen", m, "result:partial", 1),
		rt.GateMin("full result sets seen", m, "result:full", 1),
		rt.GateMin("results crossing a batch boundary", m, "crossed_batch", 1),
		rt.GateMin("strictly evaluable cases judged", m, "judged:strict", 1000),
		{Name: "rejected statements stay below 2% of the judged ones", Observed: m["rejected"], Need: (m["judged:strict"] + m["judged:sc"]) / 50, OK: m["rejected"] <= (m["judged:strict"]+m["judged:sc"])/50},
	}
}

var c01Families = []string{gen.FTiny, gen.FTiny, gen.FNum, gen.FNum, gen.FFloat, gen.FMixed, gen.FBinary, gen.FWide, gen.FTies}

type c01Case struct {
	store *gen.Store
	pred  *gen.Node
	query string
}

func c01Gen(c *rt.Ctx) c01Case {
	r := c.R
	fam := c01Families[r.Intn(len(c01Families))]
	st := gen.NewStore(r, fam)
	if r.Chance(1, 12) {
		// integers that need more than 53 bits, and the ends of the int64 range: int(value)
		// must read them exactly
		base := []int64{9007199254740992, 9223372036854775800, -9007199254740992, 4611686018427387904}[r.Intn(4)]
		n := r.Range(3, 12)
		var ps []refstore.Pair
		for i := 0; i < n; i++ {
			ps = append(ps, refstore.Pair{K: fmt.Sprintf("k%02d", i), V: fmt.Sprint(base + int64((i*5)%8) - 3)})
		}
		ps = append(ps, refstore.Pair{K: "k98", V: "12"}, refstore.Pair{K: "k99", V: "-7"})
		st = &gen.Store{Family: gen.FNum, Pairs: ps}
		c.Rec.Inc("bigint_store")
	}
	g := &gen.PredGen{R: r, KeyLits: st.KeyLiterals(r), IntVals: st.ValuesInt(), FltVals: st.ValuesFloat(), Avoid: c.Avoid, FloatEq: !c.Avoid["float-equality"]}
	if c.Case%8 == 5 {
		// 010 is ten, 09 is nine
		g.PadInts = true
		c.Rec.Inc("integer_literals_with_leading_zeros")
	}
	if r.Chance(1, 8) {
		g.ForceKind = []int{12, 13, 14, 15, 16, 17, 18, 19, 19}[r.Intn(9)]
		c.Rec.Inc("key_region_constructs_first")
	}
	vals := map[string]bool{}
	for _, p := range st.Pairs {
		if gen.Printable(p.V) && len(p.V) < 12 {
			vals[p.V] = true
		}
	}
	for v := range vals {
		g.ValLits = append(g.ValLits, v)
	}
	g.ValLits = append(g.ValLits, "a", "1", "")
	sortStrings(g.ValLits)
	depth := r.Range(0, 3)
	if r.Chance(1, 8) {
		depth = 4
	}
	pred := g.Bool(depth)
	if len(st.Pairs) > 0 && strings.HasPrefix(st.Pairs[0].K, "k0") && len(st.Pairs[0].V) > 15 {
		// big-integer store: make sure the exact value of int(value) decides
		lit, _ := strconv.ParseInt(st.Pairs[r.Intn(len(st.Pairs)-2)].V, 10, 64)
		cmp := gen.Bin([]string{"=", "!=", ">", "<", ">=", "<="}[r.Intn(6)], gen.Call("int", gen.Value()), gen.Int(lit))
		if c.Case%4 == 2 {
			// wave 15 (C15-aa): a literal of digits only that no 64-bit integer holds is the float it
			// spells (2^64: every stored integer is below it whatever the rounding)
			cmp = gen.Bin([]string{"<", "<=", ">", ">="}[(c.Case/4)%4], gen.Call("int", gen.Value()), gen.Float("18446744073709551616"))
			c.Rec.Inc("all_digit_literals_beyond_int64")
		}
		if r.Bool() {
			pred = gen.And(cmp, pred)
		} else {
			pred = gen.Or(pred, cmp)
		}
	}
	if r.Chance(1, 25) {
		ps, p := highByteCase(r)
		st, pred = &gen.Store{Family: gen.FBinary, Pairs: ps}, p
		c.Rec.Inc("high_byte_literals")
	}
	style := gen.Style{Paren: []int{0, 1, 3}[r.Intn(3)], R: r.Fork(), Case: r.Chance(1, 3)}
	return c01Case{store: st, pred: pred, query: "select * where " + style.Print(pred)}
}

// c01Expected evaluates the reference. grade: "strict", "sc" or "" (not judged).
func c01Expected(pred *gen.Node, pairs []refstore.Pair, floatEq bool) (rows [][]string, grade, why string) {
	for _, sc := range []bool{false, true} {
		ok := true
		var sel []refstore.Pair
		for _, p := range pairs {
			env := &refeval.Env{Key: p.K, Value: p.V, ShortCircuit: sc, FloatEq: floatEq}
			v, defined := env.Eval(pred)
			if !defined || v.K != refeval.VBool {
				ok = false
				if why == "" {
					why = env.Why
				}
				break
			}
			if v.B {
				sel = append(sel, p)
			}
		}
		if ok {
			if sc {
				return pairRows(sel), "sc", ""
			}
			return pairRows(sel), "strict", ""
		}
	}
	return nil, "", why
}

func (k c01) Run(c *rt.Ctx) {
	cs := c01Gen(c)
	oracle := k.judge(c, cs.query, cs.pred, cs.store.Pairs, nil)
	if oracle == "" {
		return
	}
	// shrink for clustering / replay, then report through the same oracle
	probe := &rt.Ctx{Prop: c.Prop, Tier: c.Tier, Seed: c.Seed, Case: c.Case, R: c.R.Fork(), Rec: rt.NewRec(), Avoid: c.Avoid}
	small := shrinkBool(cs.pred, func(p *gen.Node) bool {
		return k.judge(probe, "select * where "+gen.Print(p), p, cs.store.Pairs, nil) == oracle
	}, 60)
	small = shrinkOperands(small, func(p *gen.Node) bool {
		return k.judge(probe, "select * where "+gen.Print(p), p, cs.store.Pairs, nil) == oracle
	}, 60)
	c.Rec.Eval(probe.Rec.Counters["evaluations"])
	k.judge(c, cs.query, cs.pred, cs.store.Pairs, small)
}

// judge runs the oracle. With report == nil it only returns the name of the
// first violated oracle (""= none); with report != nil it records the
// violation, clustered by the shape of report (the shrunk predicate).
func (k c01) judge(c *rt.Ctx, query string, pred *gen.Node, pairs []refstore.Pair, report *gen.Node) (oracleHit string) {
	rec := c.Rec
	viol := func(oracle, cluster string, d func() rt.D) {
		oracleHit = oracle
		if report != nil {
			c.Violation(oracle, cluster, func() rt.D {
				m := d()
				m["shrunk_predicate"] = gen.Print(report)
				return m
			})
		}
	}
	_ = viol
	want, grade, why := c01Expected(pred, pairs, !c.Avoid["float-equality"])
	if grade == "" {
		rec.NotJudged("predicate not evaluable on every pair under the documentation: " + firstWords(why))
		return ""
	}
	rec.Inc("judged:" + grade)
	if len(pairs) > 0 {
		rec.DistinctS(query + "\x00" + pairsKey(pairs))
	}
	bs := pickBatch(c)
	modes := []drive.Mode{{Batch: false, Size: bs, Cache: true}, {Batch: true, Size: bs, Cache: true}, {Batch: true, Size: pickBatch(c), Cache: c.R.Bool()}}
	c.Logf("query: %s\nstore: %v\ngrade: %s\nexpected rows: %v", query, drive.PairsOf(pairs), grade, want)
	for mi, m := range modes {
		var first *drive.Outcome
		for rep := 0; rep < 2; rep++ {
			st := refstore.New(pairs)
			o := drive.Run(query, st, m)
			rec.Eval(1)
			c.Logf("mode %s run %d: %v", m, rep, outcomeBrief(o))
			if mi == 0 && rep == 0 && o.Plan != nil {
				rec.Inc("scan:" + scanKind(o.Plan))
			}
			detail := func(extra string) func() rt.D {
				return func() rt.D {
					return rt.D{"query": query, "store": storeBrief(pairs), "mode": m.String(), "grade": grade, "expected": drive.Trunc(want, 12), "observed": outcomeBrief(o), "note": extra, "storage_log": trimLog(refstore.FormatLog(st.Log()))}
				}
			}
			cluster := ""
			if report != nil {
				cluster = gen.Shape(report)
			}
			switch o.Status() {
			case "panic", "runaway":
				viol("crash-or-runaway", o.Status()+" "+o.Frame, detail(""))
				return oracleHit
			case "planerr":
				// not an "accepted query": acceptance of well-typed text is C14's
				rec.NotJudged("statement rejected at plan time (C14 judges acceptance)")
				rec.Inc("rejected")
				return ""
			case "execerr":
				if grade == "strict" {
					viol("error-on-evaluable-predicate", cluster, detail("every sub-expression is defined on every pair, yet execution failed"))
					return oracleHit
				}
				rec.NotJudged("short-circuit-only predicate and the engine returned an error")
				continue
			}
			if rep == 0 {
				first = o
				// order and multiplicity on the returned sequence itself
				if msg := checkOrder(o.Rows); msg != "" {
					viol("order-or-multiplicity", msg+" / scan "+scanKind(o.Plan)+" / "+cluster, detail(msg))
					return oracleHit
				}
				if !drive.RowsEqual(o.Rows, want) {
					viol("rows-differ-from-reference", scanKind(o.Plan)+" / "+cluster, detail(diffRows(want, o.Rows)))
					return oracleHit
				}
				switch {
				case len(want) == 0:
					rec.Inc("result:empty")
				case len(want) == len(pairs):
					rec.Inc("result:full")
				default:
					rec.Inc("result:partial")
				}
				if m.Batch && len(o.Rows) > m.Size {
					rec.Inc("crossed_batch")
				}
			} else if !drive.RowsEqual(o.Rows, first.Rows) {
				viol("not-repeatable", cluster, detail("second run on a fresh plan differs from the first"))
				return oracleHit
			}
		}
	}
	if c.Case%500 == 0 {
		rec.Sample(rt.D{"query": query, "store_size": len(pairs), "grade": grade, "expected_rows": len(want)})
	}
	return ""
}

func checkOrder(rows [][]string) string {
	for i := 1; i < len(rows); i++ {
		if len(rows[i]) < 1 || len(rows[i-1]) < 1 {
			return "row without columns"
		}
		a, b := rows[i-1][0], rows[i][0]
		if a == b {
			return "a pair is returned twice"
		}
		// T"..." quoted strings: compare the unquoted bytes
		if unq(a) > unq(b) {
			return "rows not in ascending key order"
		}
	}
	return ""
}

func unq(n string) string {
	if len(n) > 1 && n[0] == 'T' {
		if s, err := strconvUnquote(n[1:]); err == nil {
			return s
		}
	}
	return n
}

func diffRows(want, got [][]string) string {
	wm := map[string]int{}
	for _, r := range want {
		wm[drive.RowKey(r)]++
	}
	gm := map[string]int{}
	for _, r := range got {
		gm[drive.RowKey(r)]++
	}
	var missing, extra []string
	for k, n := range wm {
		if gm[k] < n {
			missing = append(missing, strings.ReplaceAll(k, "\x1f", "|"))
		}
	}
	for k, n := range gm {
		if wm[k] < n {
			extra = append(extra, strings.ReplaceAll(k, "\x1f", "|"))
		}
	}
	sortStrings(missing)
	sortStrings(extra)
	if len(missing) > 6 {
		missing = missing[:6]
	}
	if len(extra) > 6 {
		extra = extra[:6]
	}
	if len(missing) == 0 && len(extra) == 0 {
		return "same multiset, different order"
	}
	return sprintf("missing=%v extra=%v", missing, extra)
}

func (k c01) RunWitness(c *rt.Ctx, w map[string]any) {
	// witness: {"statement": ..., "store": [[k,v]...]} judged via the engine's
	// own text is impossible without the tree, so witnesses carry the
	// expected rows explicitly.
	q, _ := w["statement"].(string)
	pairs := pairsFromAny(w["store"])
	want := rowsFromAny(w["expected"])
	for _, m := range []drive.Mode{{Batch: false, Size: 32, Cache: true}, {Batch: true, Size: 32, Cache: true}} {
		o := drive.Run(q, refstore.New(pairs), m)
		if o.Status() != "ok" || !drive.RowsEqual(o.Rows, want) {
			c.Violation("rows-differ-from-reference", "witness", func() rt.D { return rt.D{"query": q, "observed": outcomeBrief(o)} })
			return
		}
	}
}
