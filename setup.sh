#!/bin/sh
# Offline setup: warm the Go build cache by building the harness once against /repo.
cd "$(dirname "$0")" || exit 1
exec ./run.sh --build-only
