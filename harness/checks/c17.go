package checks

import (
	"fmt"
	"strings"
	"unicode"

	"kvqlverif/drive"
	"kvqlverif/gen"
	"kvqlverif/refstore"
	"kvqlverif/rt"
)

// C17 — reported error positions lie inside the query and render with an
// aligned caret. Range / token-start monitor on the error's Pos, and a
// caret-alignment checker on the rendered text.

type c17 struct{ rt.Base }

func init() { rt.Register(&c17{}) }

func (c17) ID() string { return "C17" }

func (c17) NumCases(tier string) int {
	if tier == "thorough" {
		return 500000 / c17Block
	}
	return 30000 / c17Block
}

const c17Block = 10

func (c17) Rule() string {
	return "erroneous statements: single-edit corruptions (token deletion / duplication / replacement, byte edits, truncation) of grammar-generated statements of every kind, hand-made late faults in >70-byte queries, and execution-time errors (division by a zero row value, reversed BETWEEN bounds, bad patterns from data, unequal vector lengths); each with 0..5 (sometimes 30..120) leading and trailing blanks; every positional error is checked for its offset (range, token start for plan-time errors) and rendered with paddings 0, 7 and 20 after BindQuery. Non-trivial: a positional error was returned; distinct by (query text, error position) hash."
}

func (c17) Assumptions() []string {
	return []string{"token starts come from the reference tokenizer of C16, not from the lexer under test", "rendered form: line 1 = the query window (optionally '... ' before / ' ...' after), line 2 = blanks then '^--', line 3 = padding + message; the caller prints a prefix of <padding> characters before line 1, so the caret column minus the padding indexes line 1", "for position -1 the caret must stand in the column just after the last non-blank byte of the query"}
}

func (c17) Gates(tier string, m map[string]int64) []rt.Gate {
	return []rt.Gate{
		rt.GateMin("run-time faults on constant calls at known offsets (also behind non-ASCII text)", m, "known_offsets_checked", 100),
		rt.GateMin("statements whose last literal lost its closing quote", m, "unterminated_last_literal", 500),
		rt.GateMin("errors held across later failing statements and rendered again", m, "held_errors_rechecked", 1000),
		rt.GateMin("queries with a tab or line break before the leading blanks", m, "leading_tab_or_newline", 500),
		rt.GateMin("positional errors from BuildPlan checked", m, "plan_errors", 2000),
		rt.GateMin("positional errors from execution checked", m, "exec_errors", 200),
		rt.GateMin("renderings checked", m, "renderings", 5000),
		rt.GateMin("plan-time offsets checked against reference token starts", m, "token_start_checked", 1000),
		rt.GateMin("queries longer than 70 bytes with an error", m, "long_queries", 500),
		rt.GateMin("late faults (offset beyond 35) in long queries", m, "long_late", 200),
		rt.GateMin("queries with leading blanks", m, "leading_blanks", 500),
		rt.GateMin("end-of-input errors (position -1)", m, "pos_minus_one", 200),
	}
}

var c17ExecErr = []string{
	"select key, 10 / (int(value) - int(value)) where true",
	"select * where 10 / (strlen(key) - strlen(key)) > 1",
	"select key, int(value) as n where key ^= 'k' & 100 / (n - n) > 2",
	"select * where key between value and 'a'",
	"select * where int(value) between strlen(key) + 10 and 1",
	"select * where value ~= '('",
	"select * where key ~= value",
	"select key, l2_distance(list(1, 2), list(int(value))) where true",
	"select key where cosine_distance(int_list(1, 2, 3), int_list(1, strlen(key))) > 0",
	"select key, upper(value) as u, 7 / (strlen(u) - strlen(u)) where true order by u",
	"select count(1), sum(10 / (int(value) - int(value))) where true",
	"select value, count(1) where 1 / (strlen(value) - strlen(value)) = 1 group by value",
	"put ('k1', 10 / strlen(''))",
	"put ('k1', 'v1'), ('k2', upper('x' + str(10 / strlen(''))))",
	"remove 'a', str(1 / strlen(''))",
	"delete where 10 / (strlen(key) - strlen(key)) > 1",
	"select key where json(value)['x'] > 1",
	"select key, len(int(value)), len(json(value)) where true",
}

func (k c17) Run(c *rt.Ctx) {
	r := c.R
	held := &c17Held{}
	for i := 0; i < c17Block; i++ {
		fam := []string{gen.FNum, gen.FMixed, gen.FTiny, gen.FRel, "text"}[r.Intn(5)]
		ps := c06Store(r, fam)
		if len(ps) == 0 {
			ps = []refstore.Pair{{K: "k1", V: "1"}, {K: "k2", V: "x"}}
		}
		var q string
		wantPos := -2
		switch r.Intn(9) {
		case 3: // a run-time fault on a constant call at a known offset, behind a varying amount of (also non-ASCII) text
			conj := []string{"key != 'gr\xc3\xb6\xc3\x9fe'", "value != 'na\xc3\xafve'", "key != '\xc5\xbc\xc3\xb3\xc5\x82\xc4\x87'", "key ^= 'k'", "value != 'zzzz'", "strlen(key) > 0", "key != '" + strings.Repeat("y", r.Range(5, 60)) + "'", "value != '\xe6\x97\xa5\xe6\x9c\xac\xe8\xaa\x9e'", "value != '100%d'", "key != '%s%s'", "value != '50%'"} // the last three since wave 15 (C17-ab: the query inside a format string)
			var parts []string
			for j, n := 0, r.Intn(5); j < n; j++ {
				parts = append(parts, conj[r.Intn(len(conj))])
			}
			fm := [][2]string{{"int(value) / int('0') > 1", "int('0')"}, {"substr(key, upper('x'), 1) = 'a'", "upper('x')"}, {"float(value) / strlen('') > 1", "strlen('')"}, {"7 / int('0') > strlen(key)", "int('0')"}, {"int(value) / int(lower('0')) > 1", "int(lower"}}[r.Intn(5)]
			fault, mark := fm[0], fm[1]
			parts = append(parts, fault)
			q = []string{"select key where ", "select key, value where ", "delete where "}[r.Intn(3)] + strings.Join(parts, " & ")
			if r.Chance(1, 3) {
				q += " & value != '" + strings.Repeat("w", r.Range(3, 40)) + "'"
			}
			wantPos = strings.LastIndex(q, mark)
			ps = []refstore.Pair{{K: "k1", V: "7"}, {K: "k2", V: "10"}, {K: "k3", V: "3"}}
			c.Rec.Inc("constant_call_faults_at_known_offsets")
		case 0: // execution-time errors
			q = c17ExecErr[r.Intn(len(c17ExecErr))]
			if r.Bool() {
				q = c17Lengthen(r, q)
			}
		case 1: // long query with a late fault
			q = c17LongLate(r)
		case 2: // the last literal lost its closing quote and is the token the error points at
			q = []string{"select * where key = 'abc", "select key where value ~= \"^x", "remove 'k1', 'k2", "select * where key ^= 'k' & value + 'zz", "select key, value where key > 'a' & value = `v", "delete where value ^= \"it's", "select * where key = 'a' | value ^= 'b c"}[r.Intn(7)]
			if r.Bool() { // longer than the 70-byte window, the open literal stays last
				pad := strings.Repeat("z", r.Range(30, 120))
				if i := strings.Index(q, " where "); i >= 0 {
					q = q[:i+7] + "key != '" + pad + "' & " + q[i+7:]
				} else {
					q = "remove '" + pad + "', " + q[len("remove "):]
				}
			}
			c.Rec.Inc("unterminated_last_literal")
		default:
			gs := &gen.Store{Family: fam, Pairs: ps}
			g := fullGenFor(c, gs, r)
			stmt := g.Any(r.Range(1, 3))
			q = stmt.Text(gen.Style{Paren: r.Intn(4), R: r.Fork(), Case: r.Chance(1, 3), Tight: r.Chance(1, 5)})
			q = c06Mutate(r, q)
			if r.Chance(1, 4) {
				q = c17Lengthen(r, q)
			}
		}
		// blanks
		lead, trail := r.Intn(6), r.Intn(6)
		if r.Chance(1, 6) {
			lead = r.Range(30, 120)
		}
		if r.Chance(1, 10) {
			trail = r.Range(30, 120)
		}
		if r.Chance(1, 3) {
			lead = 0
		}
		q = strings.Repeat(" ", lead) + q + strings.Repeat(" ", trail)
		if r.Chance(1, 6) {
			// other white space before the leading blanks (a pasted multi-line literal): it is
			// stripped from the shown line like the blanks are
			q = []string{"\n", "\t", "\r\n", "\n\n", "\t\t ", " \n"}[r.Intn(6)] + " " + q
			c.Rec.Inc("leading_tab_or_newline")
		}
		if wantPos >= 0 {
			wantPos += len(q) - len(strings.TrimLeft(q, " \t\r\n")) // white space put in front after the offset was taken
		}
		k.judgeAt(c, q, ps, held, wantPos)
	}
}

func (k c17) judge(c *rt.Ctx, q string, ps []refstore.Pair, held *c17Held) {
	k.judgeAt(c, q, ps, held, -2)
}

func c17Lengthen(r *rt.Rand, q string) string {
	// make the query longer than 70 bytes without changing its nature: a long literal conjunct / extra field
	pad := strings.Repeat("z", r.Range(30, 200))
	lq := strings.ToLower(q)
	if i := strings.Index(lq, " where "); i >= 0 && !strings.HasPrefix(strings.TrimSpace(lq), "put") {
		if r.Bool() {
			return q[:i+7] + "key != '" + pad + "' & " + q[i+7:]
		}
		return q + " & value != '" + pad + "'"
	}
	return q + " , '" + pad + "'"
}

func c17LongLate(r *rt.Rand) string {
	base := "select key, value, upper(value) as u, int(value) as n where key ^= 'k' & value != '" + strings.Repeat("y", r.Range(10, 120)) + "' & "
	faults := []string{"val ^= 'test'", "key = 1", "value + 1 > 2", "nosuch(key) = 'a'", "key in ('a', 2)", "n between 'a' and 3", "upper(key, 1) = 'A'", "(key = 'a'", "key = 'a')", "key = ", "key ^= ", "!(u)", "u ~= 1", "n +", "strlen()"}
	q := base + faults[r.Intn(len(faults))]
	if r.Bool() {
		q += " & value != '" + strings.Repeat("w", r.Range(5, 90)) + "'"
	}
	if r.Chance(1, 3) {
		q += " order by u limit 5"
	}
	return q
}

// c17Tokens returns the token starts according to the reference tokenizer of
// C16 (not the lexer under test: a lexer that reports a shifted offset would
// otherwise vouch for itself). ok=false when the reference does not settle the
// tokenisation of q.
func c17Tokens(q string) (starts map[int]bool, ok bool) {
	toks, judged, why := refTokenize(q)
	if !judged && why == "unterminated quote" {
		// the text before the opening quote is tokenised as usual; the unterminated literal is
		// one last token that starts at its quote
		open, qc := -1, byte(0)
		for i := 0; i < len(q); i++ {
			ch := q[i]
			if qc == 0 {
				if ch == '\'' || ch == '"' || ch == '`' {
					open, qc = i, ch
				}
			} else if ch == qc {
				open, qc = -1, 0
			}
		}
		if open < 0 {
			return nil, false
		}
		head, hj, _ := refTokenize(q[:open])
		if !hj {
			return nil, false
		}
		starts = map[int]bool{open: true}
		for _, t := range head {
			starts[t.pos] = true
		}
		return starts, true
	}
	if !judged {
		return nil, false
	}
	starts = map[int]bool{}
	for _, t := range toks {
		starts[t.pos] = true
	}
	return starts, true
}

// c17Held is an error of an earlier statement of the same case, kept to see
// that it still renders the same text after later statements failed.
type c17Held struct {
	err   error
	query string
	text  string
}

// judgeAt: wantPos >= 0 is the offset the error of this statement has to carry (-2: not known)
func (k c17) judgeAt(c *rt.Ctx, q string, ps []refstore.Pair, held *c17Held, wantPos int) {
	rec := c.Rec
	if strings.ContainsAny(strings.TrimSpace(q), "\n\r") {
		rec.NotJudged("query contains a line break (rendering is line based; line breaks are not token separators)")
		return
	}
	if strings.TrimSpace(q) == "" {
		rec.NotJudged("blank query (nothing to show)")
		return
	}
	for _, m := range []drive.Mode{{Batch: false, Size: 3, Cache: true}, {Batch: true, Size: 3, Cache: true}} {
		o := drive.Run(q, refstore.New(ps), m)
		rec.Eval(1)
		if o.Status() == "panic" {
			rec.NotJudged("statement panics (C06)")
			return
		}
		err := o.Err()
		if err == nil {
			continue
		}
		pos, kind, positional := drive.ErrPos(err)
		if !positional {
			rec.NotJudged("error without a position (not a SyntaxError/ExecuteError)")
			continue
		}
		planTime := o.PlanErr != nil
		if planTime {
			rec.Inc("plan_errors")
		} else {
			rec.Inc("exec_errors")
		}
		rec.DistinctS(fmt.Sprintf("%s\x00%d", q, pos))
		trimmed := strings.TrimSpace(q)
		if len(trimmed) > 70 {
			rec.Inc("long_queries")
			if pos-(len(q)-len(strings.TrimLeft(q, " "))) > 35 {
				rec.Inc("long_late")
			}
		}
		if strings.HasPrefix(q, " ") {
			rec.Inc("leading_blanks")
		}
		if pos == -1 {
			rec.Inc("pos_minus_one")
		}
		msg := stripPos(err.Error())
		detail := func(extra rt.D) func() rt.D {
			return func() rt.D {
				d := rt.D{"query": q, "query_len": len(q), "error_kind": kind, "error_pos": pos, "message": msg, "mode": m.String(), "plan_time": planTime}
				for kk, v := range extra {
					d[kk] = v
				}
				return d
			}
		}
		cl := func(what string) string { return what + " / " + kind + " / " + rt.Shape(firstWords(msg)) }
		// (1) range
		if pos != -1 && (pos < 0 || pos >= len(q)) {
			c.Violation("position-outside-the-query", cl("offset outside"), detail(nil))
			return
		}
		if wantPos >= 0 {
			rec.Inc("known_offsets_checked")
			if pos != wantPos {
				c.Violation("position-not-at-the-failing-expression", cl("offset of another place"), detail(rt.D{"expected_pos": wantPos}))
				return
			}
		}
		// (2) token start (every position the library reports is the offset of a token of the statement)
		if pos > 0 {
			if starts, ok := c17Tokens(q); !ok {
				rec.NotJudged("token starts undefined for this text (unterminated quote)")
			} else if !starts[pos] {
				c.Violation("position-not-a-token-start", cl("mid-token offset"), detail(rt.D{"token_starts": keysOfInt(starts)}))
				return
			} else {
				rec.Inc("token_start_checked")
			}
		}
		if planTime && m.Batch {
			continue // same error as in row mode
		}
		// (3) rendering
		for _, pad := range []int{0, 7, 20} {
			texts, pan, _ := drive.Render(err, q, []int{pad})
			rec.Inc("renderings")
			if pan != "" {
				c.Violation("rendering-panics", cl("panic"), detail(rt.D{"padding": pad, "panic": pan}))
				return
			}
			if bad := c17CheckRender(q, pos, pad, texts[0]); bad != "" {
				c.Violation("caret-misaligned", cl(bad), detail(rt.D{"padding": pad, "rendered": strings.Split(texts[0], "\n")}))
				return
			}
		}
		if c.Case%200 == 0 && c.R.Chance(1, 10) {
			texts, _, _ := drive.Render(err, q, []int{7})
			rec.Sample(rt.D{"query": q, "pos": pos, "rendered": strings.Split(texts[0], "\n")})
		}
		// (4) errors are independent values: an error held from an earlier statement renders
		// what it rendered before, whatever failed since
		if held != nil {
			if held.err != nil {
				now, pan := c17Again(held.err)
				rec.Inc("held_errors_rechecked")
				if pan != "" || now != held.text {
					hq, ht := held.query, held.text
					c.Violation("earlier-error-changed-by-a-later-statement", cl("held error renders differently"), detail(rt.D{"earlier_query": hq, "earlier_rendering": strings.Split(ht, "\n"), "rendering_now": strings.Split(now, "\n"), "panic": pan}))
					held.err = nil
					return
				}
			}
			text, pan := c17Again(err)
			if pan == "" {
				held.err, held.query, held.text = err, q, text
			}
		}
	}
}

// c17Again renders an already bound error once more.
func c17Again(err error) (text string, pan string) {
	defer func() {
		if r := recover(); r != nil {
			pan = fmt.Sprint(r)
		}
	}()
	return err.Error(), ""
}

func keysOfInt(m map[int]bool) []int {
	var out []int
	for k := range m {
		out = append(out, k)
	}
	sortInts(out)
	return out
}

// c17CheckRender verifies the three-line rendering. "" = fine.
func c17CheckRender(q string, pos, pad int, text string) string {
	lines := strings.Split(text, "\n")
	if len(lines) != 3 {
		return fmt.Sprintf("rendering has %d lines, expected 3", len(lines))
	}
	line1, line2, line3 := lines[0], lines[1], lines[2]
	if !strings.HasPrefix(line3, strings.Repeat(" ", pad)) || strings.HasPrefix(line3, strings.Repeat(" ", pad+1)) {
		return "message line is not indented by the padding"
	}
	c := strings.Index(line2, "^")
	if c < 0 || strings.TrimLeft(line2, " ") != "^--" {
		return "caret line is not blanks followed by ^--"
	}
	col := c - pad // column in line 1
	if col < 0 {
		return "caret left of the query line"
	}
	// the offset the caret must mark, in coordinates of q
	target := pos
	rtrimLen := len(strings.TrimRightFunc(q, unicode.IsSpace))
	if pos == -1 {
		target = rtrimLen
	}
	// a position inside leading/trailing blanks cannot be shown (the query line is trimmed): accept the nearest edge
	ltrim := len(q) - len(strings.TrimLeftFunc(q, unicode.IsSpace))
	if target < ltrim {
		target = ltrim
	}
	if target > rtrimLen {
		target = rtrimLen
	}
	try := func(lm int, body string) bool {
		// strip an optional right marker
		for _, rm := range []string{" ...", ""} {
			w := body
			if rm != "" {
				if !strings.HasSuffix(w, rm) {
					continue
				}
				w = w[:len(w)-len(rm)]
			}
			a := target - (col - lm)
			if a < ltrim || a+len(w) > rtrimLen || a < 0 {
				continue
			}
			if q[a:a+len(w)] != w {
				continue
			}
			// the window must surround the offset (or end at it for end-of-input)
			if target < a || target > a+len(w) {
				continue
			}
			if target == a+len(w) && target != rtrimLen && len(w) > 0 {
				continue // caret just after the window although the query goes on
			}
			// markers must tell the truth about cut text
			if (lm == 4) != (a > ltrim) {
				continue
			}
			if (rm != "") != (a+len(w) < rtrimLen) {
				continue
			}
			return true
		}
		return false
	}
	if try(0, line1) {
		return ""
	}
	if strings.HasPrefix(line1, "... ") && try(4, line1[4:]) {
		return ""
	}
	return "the query line does not place the marked offset under the caret"
}
