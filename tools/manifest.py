#!/usr/bin/env python3
"""Regenerates /verif/MANIFEST.json from the table below (one entry per registered check)."""
import json, sys
CHECKS = {
 "C01": ("exploration", "5 C01", "reference-model monitor: refeval evaluates the generator's own predicate tree on every stored pair; rows of Next/Batch drains are compared with it (20k quick / 600k thorough generated cases, shrunk and clustered on failure)",
         "Held on the generated executions only. Trusted base: refeval (Appendix A), refstore, the Storage contract of DESIGN section 1. Constructs the documentation leaves open are tallied as not judged.",
         "runtime monitoring: reference evaluator over generated predicates and stores"),
 "C02": ("exploration", "5 C02", "runtime monitor on the built plan's scan node: every key satisfying the clause under the engine's own un-optimised filter must lie inside the scan region; plus end-to-end rows/deleted keys vs full-scan-and-filter. Exhaustive over all depth<=1 trees (both tiers) and all depth-2 trees over canonical atoms (thorough), sampled beyond; key universe adequacy-checked",
         "Literals over {a,b,c} plus the empty literal; generalisation to other literals rests on the relationship-signature check. Satisfying keys come from the engine's own filter (evaluator bugs are C01's).",
         "runtime monitoring: region-containment oracle over exhaustively enumerated predicate shapes"),
 "C03": ("exploration", "5 C03", "differential runtime monitor: the same statement text drained with Next and with Batch at three batch sizes over equal stores; rows compared by content (tie runs as multisets), write statements by post-state",
         "One-directional as the property states. Held on the generated statements only; the generator covers every scalar/aggregate function and plan node (adequacy gates).",
         "runtime monitoring: row/batch differential over grammar-generated statements"),
 "C08": ("exploration", "5 C08", "differential runtime monitor over an exhaustive (offset,count,result size,batch size) grid: limited statement vs slice of the unlimited one, for plain/ordered/aggregated selects over three access paths and for DELETE ... LIMIT, both modes",
         "The unlimited statement's own result is the reference. Grid bounds: B in {1,2,3} quick, {1,2,3,4,5,8} thorough, boundary sub-grid for B=32.",
         "runtime monitoring: exhaustive boundary grid, differential against the unlimited statement"),
 "C11": ("exploration", "5 C11", "model-map monitor + storage-log grammar: post-state of DELETE vs prior minus the keys of the engine's own SELECT; no Put events; both strategies and multi-batch deletes gated; plus sequential put/remove/delete/select histories against a model map",
         "Key set taken from the engine's own select on a copy of the prior state (the property is that equivalence). Snapshot cursors.",
         "runtime monitoring: model map and event-log grammar, single statements and histories"),
 "C12": ("exploration", "5 C12", "model-map monitor + storage-log grammar: written pairs/keys equal the reference-evaluated ones, once, in order; zero writes when an expression fails (failing expression placed at every position); extra polls return nothing; follow-up select observes the write; put/remove roundtrips over the same key expression; pair independence (a pair writes next to other pairs what it writes in a statement of its own)",
         "Reference evaluator for key/value expressions; float renderings not generated.",
         "runtime monitoring: event-log grammar and model map with injected evaluation failures"),
 "C13": ("fault_enumeration", "5 C13", "fault injection at the Storage boundary: for every statement/store/mode the fault-free call sequence is recorded and EVERY call position is failed once; the log grammar forbids any call after the failed one and requires an error that errors.Is the injected one; SELECT / rejected statements must log no mutating call; a failed write plan polled again must stay stopped",
         "Single faults; caller stops polling at the first error; statement list + generated statements (not all programs).",
         "runtime monitoring: exhaustive single-fault enumeration with an event-log grammar"),
 "C16": ("exploration", "5 C16", "token-truth monitor + reference tokenizer on EVERY string up to a length bound over two token-relevant alphabets (exhaustive), plus the spacing law on generated token streams rendered with every subset of optional blanks",
         "Blank is the only separator; texts with an unterminated quote are not judged (*= and a lone ~ or ^ are: each is a token by itself). Trusted base: 60-line reference tokenizer.",
         "runtime monitoring: exhaustive bounded enumeration against a reference tokenizer"),
 "C18": ("exploration", "5 C18", "storage-log grammar: over the event log of a full drain every key passed to Get or returned by Next must lie in the region of one pinning conjunct (+1 key beyond its end), point reads only for =/IN, no storage call for clauses unsatisfiable on their face; all canonical shapes enumerated, each inside varying statement forms (LIMIT, ORDER BY, aggregate, delete), over a dense and a sparse store, and re-run with every Seek call failing once",
         "Canonical shapes with the key on the left, literals from a 6-literal pool, one dense store.",
         "runtime monitoring: event-log grammar over exhaustively enumerated key-pinning shapes"),

 "C04": ("exploration", "5 C04", "differential runtime monitor: every generated expression is parsed twice, one copy rewritten by ExpressionOptimizer.Optimize(), and both evaluated with Execute and ExecuteBatch on a store; kind+value must agree wherever the original evaluates; second witness: the full query through BuildPlan vs the reference evaluator. Exhaustive depth-1 and one-sided depth-2 numeric trees, sampled comparisons / Boolean constants (symbols and keywords) / re-association chains / constant calls of every function with a vector twin / Boolean constants next to aggregate comparisons (one row, the operands' value)",
         "Floats are dyadic so equality is exact; -0 and +0 are the same value; str() of floats not generated (rendering undocumented).",
         "runtime monitoring: before/after-rewrite differential on the real evaluator"),
 "C05": ("exploration", "5 C05", "differential runtime monitor over {aliased text, alias-expanded text} x {cache on, off} x {row, batch}: all eight outcomes must agree; every row as wide as FieldNameList(); columns of core-language fields equal the reference evaluator on that row's pair; also duplicate field names, names/keys with colliding concatenations, list-valued named fields, ORDER BY on name-defined fields; gates on cache hits and on rejected rows between accepted ones",
         "A text the checker rejects is not judged (alias resolution positions); ORDER BY/GROUP BY keep alias names in the expanded text.",
         "runtime monitoring: eight-way configuration differential plus reference evaluator"),
 "C06": ("exploration", "5 C06", "process-level crash monitor: recover() around plan/explain/drain/render in worker processes whose death (fatal stack overflow) the coordinator attributes to the journalled case; storage-call budget and row cap as bounded-progress monitors; watchdog with solo confirmation. Workload: grammar-generated statements, token/byte mutants, hostile corpus, over 9 store families, both modes; every error rendered after BindQuery with 3 paddings; plus a coverage-guided stage (go native fuzzing over the same monitors, fixed number of executions, every crasher re-run alone in a fresh process before it counts)",
         "'Loops forever' is restated as bounded progress (call budget, row cap, 30 s watchdog). Inputs up to a few KB.",
         "runtime monitoring: crash/hang/budget monitors over generated, mutated and hostile inputs"),
 "C07": ("exploration", "5 C07", "reference-comparator monitor: ordered rows must be a multiset-permutation of the same statement without ORDER BY and adjacent rows non-decreasing under an independent comparator chosen by declared field type; lone `order by key asc` must leave the natural order; plain and aggregate statements, 1..3 keys, all asc/desc/implicit combinations, both modes",
         "Comparator by declared type (text byte-wise, numbers numeric incl. numeric text, false<true). JSON-member keys left to C06.",
         "runtime monitoring: independent comparator + permutation oracle"),
 "C09": ("exploration", "5 C09", "reference-fold monitor: the aggregate statement's rows vs an independent fold (count/sum/min/max/avg/group_concat/json_arrayagg, arithmetic around them) over the rows of the corresponding plain select; group identity by value tuples in first-appearance order; stores with colliding concatenations; zero-row and no-GROUP-BY cases; both modes",
         "Per-row values come from the engine's own plain select (property's observe_at). quantile excluded (approximate).",
         "runtime monitoring: independent aggregate fold over the engine's per-row values"),
 "C10": ("exploration", "5 C10", "reference re-implementation monitor: each scalar function and list/JSON indexing evaluated by refeval from its README description; exhaustive over unary templates x a text pool with constant and row-dependent arguments in both modes; sampled list constructors (numbers and texts), distances (incl. unequal lengths must fail, JSON arrays as vectors), JSON navigation, conversions of members of mixed type, row-dependent separators",
         "Arguments whose reading the docs leave open are not judged. Float results compared with relative tolerance 1e-12; decimal text read to the nearest double.",
         "runtime monitoring: reference re-implementation over exhaustive argument pools"),
 "C14": ("exploration", "5 C14", "typed-grammar monitor: well-typed generated statements must be accepted and execute without error in both modes; single-fault mutants (operand types, non-Boolean WHERE/!, forbidden key/value, unknown function, arity +-1) at 22 syntactic positions (incl. below field accesses, in folded-away operands, through duplicated names and name chains, aggregate parameters, non-Boolean DELETE filters, keyword and/or operands, Boolean IN operands, list equality, aggregates outside the positions the aggregate plan looks at, elements of number lists, non-Boolean field names under & |) must make BuildPlan fail with an EMPTY storage event log",
         "Typing table from README/spec. Function argument types are not part of the property. Data-dependent failures excluded by construction.",
         "runtime monitoring: accept/reject oracle with zero-call storage-log grammar"),
 "C15": ("exploration", "5 C15", "structural AST monitor: the generator owns the tree; Parser.Parse's AST is compared structurally with it for every flat operator sequence up to length 3 (quick) / 4 (thorough) over 18 operator spellings (exhaustive) and for random trees under minimal/random/full parenthesisation and random case, in every expression slot; then the canonical String() is re-parsed and must give the same tree and the same rendering; the filter shown by Explain() is run as a statement of its own (same rows, same text again); statement twins differing only in the letter case inside literals",
         "Documented precedence table; literals without quote characters; & vs and spelling ignored.",
         "runtime monitoring: structural comparison against a reference precedence climber, print/re-parse fixpoint"),

 "C17": ("exploration", "5 C17", "error-position monitor: every positional error from BuildPlan/execution is checked for range, and (plan time) against the token starts of the C16 reference tokenizer; after BindQuery the three-line rendering is checked by a caret-alignment checker (the window must be the query text placed so that the caret column marks byte Pos, markers must tell the truth) for paddings 0, 7, 20; single-edit corruptions, late faults in long queries, execution-time errors, leading/trailing blanks",
         "Token starts from the reference tokenizer (not the lexer under test). Multi-line and blank queries are not judged.",
         "runtime monitoring: offset-range/token-start oracle and caret-alignment checker"),
 "C19": ("exploration", "5 C19", "Go race detector (harness built with -race; every DATA RACE block whose two accesses are inside package kvql is a violation) plus a differential monitor: each goroutine's outcomes (rows, error text, rendered error, Explain) must equal the same statements' solo outcomes; 2..16 goroutines, GOMAXPROCS 2..16, private / shared read-only / shared mutable stores with disjoint key prefixes, PRNG yields and sleeps at the storage boundary; the stores hand out slices of their own buffers (shared backing arrays, canary bytes in the spare capacity) that are checked for damage after every round; gates on overlap and on distinct global event orders",
         "Schedules are sampled, not enumerated; the detector sees only accesses that happen. Package-level configuration is set before the goroutines start.",
         "runtime monitoring: race detector + concurrent-vs-solo differential under stress"),
}
PENDING = {}
ALL = ["C%02d" % i for i in range(1, 20)]
def main():
    m = {
     "version": 1,
     "setup_cmd": "./setup.sh",
     "hooks": {
      "guard": "verif",
      "enable": "go build -tags verif in /verif/harness (replace github.com/c4pt0r/kvql => /repo's working tree); all monitors sit at the exported API / Storage boundary, no source hook is compiled into kvql",
      "baseline_off_cmd": "cd /repo && GOFLAGS=-mod=mod GOPROXY=off GOSUMDB=off GOTOOLCHAIN=local go test -vet=off -count=1 ./...",
      "source_commits": [],
      "add_only": True
     },
     "engines": [{"name": "kvcheck", "path": "harness/", "serves_properties": sorted(CHECKS), "kind_free_text": "Go harness: generated workloads driven through kvql's public API over an instrumented reference Storage (event log, fault injection), reference models and differential monitors, one worker process per shard"}],
     "checks": [],
     "notes": "run.sh rebuilds the harness against /repo's working tree on every invocation. Exit 0 held / 1 violation (VIOLATION lines) / 2 inconclusive (INCONCLUSIVE lines). known_findings.json lists fixed and known findings.",
     "not_applicable": []
    }
    for pid in ALL:
        if pid in CHECKS:
            lvl, ref, text, note, tech = CHECKS[pid]
            m["checks"].append({
              "property_id": pid,
              "quick_cmd": "./run.sh %s quick" % pid,
              "thorough_cmd": "./run.sh %s thorough" % pid,
              "evidence_file": "/verif/evidence/%s.json" % pid,
              "replay_cmd_template": "./run.sh %s quick --replay {path}" % pid,
              "engine": "kvcheck",
              "level_claimed": {"category": lvl, "text": text, "design_ref": "DESIGN.md section " + ref},
              "level_note": note,
              "technique": tech})
        else:
            m["not_applicable"].append({"property_id": pid, "reason": PENDING.get(pid, "check not yet built in this session (runtime monitor designed in DESIGN.md section 5, under construction)")})
    json.dump(m, open("/verif/MANIFEST.json", "w"), indent=1)
    print("checks:", len(m["checks"]), "pending:", len(m["not_applicable"]))
if __name__ == "__main__":
    main()
