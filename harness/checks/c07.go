package checks

import (
	"fmt"
	"strings"

	"kvqlverif/drive"
	"kvqlverif/gen"
	"kvqlverif/refeval"
	"kvqlverif/refstore"
	"kvqlverif/rt"
)

// C07 — ORDER BY returns a sorted permutation of the unordered result.
// Reference comparator by declared field type + multiset equality against the
// same statement without the ORDER BY clause.

type c07 struct{ rt.Base }

func init() { rt.Register(&c07{}) }

func (c07) ID() string { return "C07" }

func (c07) NumCases(tier string) int {
	if tier == "thorough" {
		return 200000
	}
	return 10000
}

func (c07) Rule() string {
	return "SELECT statements with 1..3 ORDER BY keys drawn from key, value, aliased text / number / Boolean expressions and aggregates (incl. sums that are integer in one group and float in another), every asc/desc/implicit combination, over stores with duplicate values and total ties, in row and batch mode; compared with the same statement without ORDER BY. Non-trivial: at least two rows and at least two distinct values of the first sort key; distinct by (statement, store) hash."
}

func (c07) Assumptions() []string {
	return []string{"the comparator is chosen by the field's declared type: text byte-wise, numbers numerically (integers and floats mixed through float64; numeric text parsed), false before true", "JSON-member sort keys (dynamically typed) are left to C06 (register B9)"}
}

func (c07) Gates(tier string, m map[string]int64) []rt.Gate {
	return []rt.Gate{
		rt.GateMin("stores of floats that differ in their last digits", m, "close_float_store", 100),
		rt.GateMin("a later field repeating the name of a sort key", m, "duplicate_name_of_a_sort_key", 50),
		rt.GateMin("an earlier field whose name differs from a sort key's only in letter case", m, "name_differing_only_in_case_from_a_sort_key", 50),
		rt.GateMin("ORDER BY naming the same column twice", m, "repeated_order_column", 20),
		rt.GateMin("sort keys defined through another select field", m, "alias_defined_sort_key", 50),
		rt.GateMin("ordered results checked", m, "checked", 2000),
		rt.GateMin("ties on the first key resolved by a later key", m, "tie_resolved_by_later_key", 100),
		rt.GateMin("descending keys", m, "desc_keys", 500),
		rt.GateMin("number-typed sort keys", m, "type:N", 500),
		rt.GateMin("Boolean-typed sort keys", m, "type:B", 100),
		rt.GateMin("aggregate statements ordered", m, "aggregate", 300),
		rt.GateMin("mixed int/float sort column", m, "mixed_int_float_column", 10),
		rt.GateMin("lone `order by key asc` (elided sort)", m, "lone_key_asc", 50),
		rt.GateMin("row mode", m, "mode:row", 500), rt.GateMin("batch mode", m, "mode:batch", 500),
		rt.GateMin("stores with integers beyond 2^53", m, "bigint_store", 100), rt.GateMin("IN-list (point read) filters", m, "in_list_where", 200),
	}
}

type c07Field struct {
	e    *gen.Node
	name string
	tp   byte
}

func c07Fields(r *rt.Rand) []c07Field {
	V, K := gen.Value, gen.Key
	pool := []c07Field{
		{gen.Call("upper", V()), "", 'S'},
		{gen.Bin("+", V(), K()), "", 'S'},
		{gen.Call("lower", gen.Bin("+", K(), V())), "", 'S'},
		{gen.Call("str", gen.Call("strlen", V())), "", 'S'},
		{gen.Call("int", V()), "", 'N'},
		{gen.Call("strlen", V()), "", 'N'},
		{gen.Call("float", V()), "", 'N'},
		{gen.Bin("-", gen.Bin("*", gen.Call("int", V()), gen.Int(2)), gen.Call("strlen", K())), "", 'N'},
		{gen.Bin("/", gen.Call("float", V()), gen.Float("2.0")), "", 'N'},
		{gen.Bin("-", gen.Int(0), gen.Call("int", V())), "", 'N'},
		{gen.Bin(">", K(), gen.Str("k1")), "", 'B'},
		{gen.Call("is_int", V()), "", 'B'},
		{gen.Bin(">", gen.Call("int", V()), gen.Int(3)), "", 'B'},
		{gen.Bin("=", gen.Call("strlen", V()), gen.Int(1)), "", 'B'},
	}
	n := r.Range(0, 3)
	var out []c07Field
	for i := 0; i < n; i++ {
		f := pool[r.Intn(len(pool))]
		f.name = fmt.Sprintf("o%d", i)
		out = append(out, f)
	}
	return out
}

var c07Families = []string{gen.FTies, gen.FTies, gen.FNum, gen.FNum, gen.FFloat, gen.FMixed, gen.FWide, gen.FRel, gen.FTiny}

func (k c07) Run(c *rt.Ctx) {
	r := c.R
	st := gen.NewStore(r, c07Families[r.Intn(len(c07Families))])
	bigint := false
	if r.Chance(1, 10) {
		// integers beyond 2^53 that differ by less than float64 precision, and near the int64 limits
		base := []int64{9007199254740992, 9223372036854775800, -9007199254740992, 4611686018427387904}[r.Intn(4)]
		n := r.Range(4, 12)
		var ps []refstore.Pair
		for i := 0; i < n; i++ {
			ps = append(ps, refstore.Pair{K: fmt.Sprintf("k%02d", i), V: fmt.Sprint(base + int64((i*5)%7) - 3)})
		}
		st = &gen.Store{Family: gen.FNum, Pairs: ps}
		c.Rec.Inc("bigint_store")
		bigint = true
	}
	closeF := false
	if !bigint && r.Chance(1, 12) {
		// floats that differ in their last digits only (no tolerance applies to a sort)
		vals := []string{"1.0000000001", "1.0000000002", "1.00000000015", "0.30000000000000004", "0.3", "1.0", "0.29999999999", "2.5", "1.0000000001"}
		if r.Bool() {
			// magnitudes no 64-bit integer holds, whole numbers among them
			vals = []string{"1e19", "1e300", "-1e19", "9300000000000000000", "18446744073709551616", "2.5", "-1e300", "1e19", "3", "-7"}
			c.Rec.Inc("huge_float_store")
		}
		n := r.Range(4, 12)
		var ps []refstore.Pair
		for i := 0; i < n; i++ {
			ps = append(ps, refstore.Pair{K: fmt.Sprintf("k%02d", i), V: vals[r.Intn(len(vals))]})
		}
		st = &gen.Store{Family: gen.FFloat, Pairs: ps}
		c.Rec.Inc("close_float_store")
		closeF = true
	}
	stmt := &gen.Stmt{Kind: "select"}
	var fields []c07Field
	aggregate := r.Chance(1, 4)
	if closeF {
		aggregate = false
	}
	if aggregate {
		// group by one or two expressions; order by aggregates / group keys
		gpool := []c07Field{{gen.Value(), "g0", 'S'}, {gen.Call("strlen", gen.Key()), "g1", 'N'}, {gen.Call("upper", gen.Value()), "g2", 'S'}, {gen.Call("is_int", gen.Value()), "g3", 'B'}, {gen.Call("strlen", gen.Value()), "g4", 'N'}}
		ng := r.Range(1, 2)
		for i := 0; i < ng; i++ {
			f := gpool[r.Intn(len(gpool))]
			dup := false
			for _, x := range fields {
				if x.name == f.name {
					dup = true
				}
			}
			if dup {
				continue
			}
			fields = append(fields, f)
			stmt.GroupBy = append(stmt.GroupBy, f.name)
		}
		apool := []c07Field{
			{gen.Call("count", gen.Int(1)), "c", 'N'},
			{gen.Call("sum", gen.Call("int", gen.Value())), "si", 'N'},
			{gen.Call("sum", gen.Value()), "sm", 'N'}, // integer in one group, float in another
			{gen.Call("max", gen.Call("strlen", gen.Key())), "mx", 'N'},
			{gen.Call("avg", gen.Call("int", gen.Value())), "av", 'N'},
			{gen.Call("min", gen.Value()), "mn", 'N'},
			{gen.Call("group_concat", gen.Key(), gen.Str(",")), "gc", 'S'},
			{gen.Bin("+", gen.Call("count", gen.Int(1)), gen.Int(1)), "c1", 'N'},
		}
		na := r.Range(1, 3)
		for i := 0; i < na; i++ {
			f := apool[r.Intn(len(apool))]
			dup := false
			for _, x := range fields {
				if x.name == f.name {
					dup = true
				}
			}
			if !dup {
				fields = append(fields, f)
			}
		}
	} else {
		fields = append(fields, c07Field{gen.Key(), "key", 'S'}, c07Field{gen.Value(), "value", 'S'})
		fields = append(fields, c07Fields(r)...)
		if r.Chance(1, 4) {
			// sort keys defined through another field: the type of `v0 + ':' + key` is only
			// known once the name v0 is resolved
			v0 := gen.Value()
			fields = append(fields, c07Field{v0, "v0", 'S'})
			if r.Bool() {
				fields = append(fields, c07Field{gen.Bin("+", gen.Bin("+", gen.Ref("v0", v0), gen.Str(":")), gen.Key()), "cc", 'S'})
			} else {
				n0 := gen.Call("strlen", gen.Value())
				fields = append(fields, c07Field{n0, "n0", 'N'}, c07Field{gen.Bin("+", gen.Call("str", gen.Ref("n0", n0)), gen.Ref("v0", v0)), "cc", 'S'})
			}
			c.Rec.Inc("alias_defined_sort_key")
		}
	}
	for _, f := range fields {
		al := f.name
		if al == "key" || al == "value" {
			al = ""
		}
		stmt.Fields = append(stmt.Fields, gen.Field{E: f.e, Alias: al})
	}
	// WHERE
	switch r.Intn(4) {
	case 0:
		stmt.Where = gen.Bool(true)
	case 1:
		stmt.Where = gen.Bin("^=", gen.Key(), gen.Str([]string{"k", "", "a"}[r.Intn(3)]))
	case 2:
		stmt.Where = gen.Bin("!=", gen.Value(), gen.Str("nope"))
	default:
		stmt.Where = gen.Bin(">=", gen.Call("strlen", gen.Value()), gen.Int(int64(r.Intn(2))))
	}
	if !aggregate && len(st.Pairs) > 0 && r.Chance(1, 5) {
		// point reads over an IN list written in arbitrary order (optionally with a residual predicate)
		n := r.Range(2, 6)
		items := make([]*gen.Node, 0, n)
		for i := 0; i < n; i++ {
			k := st.Pairs[r.Intn(len(st.Pairs))].K
			if gen.Printable(k) {
				items = append(items, gen.Str(k))
			}
		}
		if len(items) > 0 {
			stmt.Where = gen.In(gen.Key(), items...)
			if r.Bool() {
				stmt.Where = gen.And(stmt.Where, gen.Bin("!=", gen.Value(), gen.Str("nope")))
			}
			c.Rec.Inc("in_list_where")
		}
	}
	// ORDER BY
	nk := r.Range(1, 3)
	if !aggregate && r.Chance(1, 12) {
		stmt.OrderBy = []gen.OrderItem{{Name: "key", Desc: false, Bare: r.Bool()}}
	} else {
		seen := map[string]bool{}
		for i := 0; i < nk; i++ {
			f := fields[r.Intn(len(fields))]
			if f.name != "cc" && fields[len(fields)-1].name == "cc" && r.Bool() {
				f = fields[len(fields)-1]
			}
			if seen[f.name] {
				// now and then the same column twice (the repetition can never decide)
				if !r.Chance(1, 3) {
					continue
				}
				c.Rec.Inc("repeated_order_column")
			}
			seen[f.name] = true
			desc := r.Bool()
			stmt.OrderBy = append(stmt.OrderBy, gen.OrderItem{Name: f.name, Desc: desc, Bare: !desc && r.Bool()})
		}
	}
	if closeF {
		f := c07Field{gen.Call("float", gen.Value()), "cf", 'N'}
		fields = append(fields, f)
		stmt.Fields = append(stmt.Fields, gen.Field{E: f.e, Alias: f.name})
		stmt.OrderBy = append([]gen.OrderItem{{Name: "cf", Desc: r.Bool()}}, stmt.OrderBy...)
		if len(stmt.OrderBy) > 3 {
			stmt.OrderBy = stmt.OrderBy[:3]
		}
	}
	if bigint && !aggregate {
		// the big integers are the first sort key
		f := c07Field{gen.Call("int", gen.Value()), "big", 'N'}
		fields = append(fields, f)
		stmt.Fields = append(stmt.Fields, gen.Field{E: f.e, Alias: f.name})
		stmt.OrderBy = append([]gen.OrderItem{{Name: "big", Desc: r.Bool()}}, stmt.OrderBy...)
		if len(stmt.OrderBy) > 3 {
			stmt.OrderBy = stmt.OrderBy[:3]
		}
	}
	if !aggregate && !closeF && !bigint && c.Case%7 == 3 {
		// wave 14 (C07-y): the first sort key is an element of a number list that is itself a
		// named field - its numeric type is only known by looking through the name
		mk := []string{"int_list", "float_list", "list"}[(c.Case/7)%3]
		l0 := gen.Call(mk, gen.Call("strlen", gen.Value()), gen.Call("strlen", gen.Key()))
		if (c.Case/21)%2 == 0 {
			l0 = gen.Call(mk, gen.Call("strlen", gen.Key()), gen.Bin("*", gen.Call("strlen", gen.Value()), gen.Int(3)))
		}
		at := int64((c.Case / 21) % 2)
		f := c07Field{gen.IndexI(gen.Ref("l0", l0), at), "e0", 'N'}
		fields = append(fields, c07Field{l0, "l0", 'L'}, f)
		stmt.Fields = append(stmt.Fields, gen.Field{E: l0, Alias: "l0"}, gen.Field{E: f.e, Alias: f.name})
		stmt.OrderBy = append([]gen.OrderItem{{Name: "e0", Desc: (c.Case/42)%2 == 0}}, stmt.OrderBy...)
		if len(stmt.OrderBy) > 3 {
			stmt.OrderBy = stmt.OrderBy[:3]
		}
		c.Rec.Inc("sort_key_element_of_a_named_list")
	}
	if !aggregate && !closeF && !bigint && c.Case%7 == 5 {
		// wave 15 (C07-aa): the first sort key is an UNNAMED field, written out again in the ORDER BY
		// clause, next to an unnamed field that differs from it only in `2` versus `2.0` (integer
		// division ties where the float division does not) - the clause means the field it spells
		base := func() *gen.Node { return gen.Call("strlen", gen.Value()) }
		if (c.Case/7)%2 == 1 {
			base = func() *gen.Node { return gen.Bin("+", gen.Call("strlen", gen.Value()), gen.Call("strlen", gen.Key())) }
		}
		ia, fa := gen.Bin("/", base(), gen.Int(2)), gen.Bin("/", base(), gen.Float("2.0"))
		first, second := ia, fa
		if (c.Case/14)%2 == 1 {
			first, second = fa, ia
		}
		fn := gen.Print(fa)
		fields = append(fields, c07Field{first, gen.Print(first), 'N'}, c07Field{second, gen.Print(second), 'N'})
		stmt.Fields = append(stmt.Fields, gen.Field{E: first}, gen.Field{E: second})
		stmt.OrderBy = append([]gen.OrderItem{{Name: fn, Desc: (c.Case/28)%2 == 0}}, stmt.OrderBy...)
		if len(stmt.OrderBy) > 3 {
			stmt.OrderBy = stmt.OrderBy[:3]
		}
		c.Rec.Inc("unnamed_sort_key_spelled_out_beside_its_integer_twin")
	}
	if !aggregate && len(stmt.OrderBy) > 0 && r.Chance(1, 8) {
		// a later select field carrying the name of a sort key: the name means the FIRST field
		nm := stmt.OrderBy[r.Intn(len(stmt.OrderBy))].Name
		if nm != "key" && nm != "value" {
			other := []c07Field{{gen.Key(), nm, 'S'}, {gen.Call("strlen", gen.Key()), nm, 'N'}, {gen.Call("lower", gen.Value()), nm, 'S'}}[r.Intn(3)]
			fields = append(fields, other)
			stmt.Fields = append(stmt.Fields, gen.Field{E: other.e, Alias: nm})
			c.Rec.Inc("duplicate_name_of_a_sort_key")
		}
	}
	if !aggregate && len(stmt.OrderBy) > 0 && r.Chance(1, 8) {
		// an EARLIER select field whose back-quoted name differs from a sort key's name only in
		// letter case: names are case-sensitive, the sort key is still the field named exactly
		nm := stmt.OrderBy[r.Intn(len(stmt.OrderBy))].Name
		if up := strings.ToUpper(nm); nm != "key" && nm != "value" && up != nm && !strings.Contains(nm, "`") {
			other := []c07Field{{gen.Key(), "`" + up + "`", 'S'}, {gen.Call("strlen", gen.Value()), "`" + up + "`", 'N'}, {gen.Call("lower", gen.Value()), "`" + up + "`", 'S'}}[r.Intn(3)]
			fields = append([]c07Field{other}, fields...)
			stmt.Fields = append([]gen.Field{{E: other.e, Alias: other.name}}, stmt.Fields...)
			c.Rec.Inc("name_differing_only_in_case_from_a_sort_key")
		}
	}
	tps := map[string]byte{}
	idx := map[string]int{}
	for i, f := range fields {
		if _, dup := idx[f.name]; dup {
			continue // a name refers to the first field that carries it
		}
		tps[f.name] = f.tp
		idx[f.name] = i
	}
	style := gen.Style{R: r.Fork(), Case: r.Chance(1, 3)}
	mode := drive.Mode{Batch: r.Bool(), Size: pickBatch(c), Cache: r.Chance(3, 4)}
	k.judge(c, stmt, style, st.Pairs, mode, tps, idx, aggregate)
}

func (k c07) judge(c *rt.Ctx, stmt *gen.Stmt, style gen.Style, pairs []refstore.Pair, mode drive.Mode, tps map[string]byte, idx map[string]int, aggregate bool) {
	rec := c.Rec
	q := stmt.Text(style)
	uq := stmt.WithoutOrder().Text(style)
	o := drive.Run(q, refstore.New(pairs), mode)
	u := drive.Run(uq, refstore.New(pairs), mode)
	rec.Eval(2)
	c.Logf("ordered:   %s\nunordered: %s\nstore: %v\nmode %s\nordered rows:   %v\nunordered rows: %v", q, uq, storeBrief(pairs), mode, outcomeBrief(o), outcomeBrief(u))
	var keys []string
	for _, ob := range stmt.OrderBy {
		d := "asc"
		if ob.Desc {
			d = "desc"
		}
		keys = append(keys, string(tps[ob.Name])+":"+d)
	}
	cluster := func(what string) string {
		a := "plain"
		if aggregate {
			a = "aggregate"
		}
		return a + " / " + strings.Join(keys, ",") + " / " + what
	}
	detail := func(extra rt.D) func() rt.D {
		return func() rt.D {
			d := rt.D{"ordered": q, "unordered": uq, "store": storeBrief(pairs), "mode": mode.String(), "ordered_rows": drive.Trunc(o.Rows, 14), "unordered_rows": drive.Trunc(u.Rows, 14)}
			for kk, v := range extra {
				d[kk] = v
			}
			return d
		}
	}
	if o.Status() == "panic" || o.Status() == "runaway" {
		c.Violation("crash", cluster(o.Frame), func() rt.D { return rt.D{"ordered": q, "store": storeBrief(pairs), "outcome": outcomeBrief(o)} })
		return
	}
	if u.Status() != "ok" {
		rec.NotJudged("the statement without ORDER BY does not complete: " + u.Status())
		return
	}
	if o.Status() != "ok" {
		c.Violation("ordered-statement-fails", cluster(firstWords(o.ErrText())), func() rt.D {
			return rt.D{"ordered": q, "store": storeBrief(pairs), "outcome": outcomeBrief(o), "unordered_rows": len(u.Rows)}
		})
		return
	}
	rec.Inc("checked")
	if mode.Batch {
		rec.Inc("mode:batch")
	} else {
		rec.Inc("mode:row")
	}
	if aggregate {
		rec.Inc("aggregate")
	}
	// (1) permutation
	ma := map[string]int{}
	for _, r := range u.Rows {
		ma[drive.RowKey(r)]++
	}
	for _, r := range o.Rows {
		ma[drive.RowKey(r)]--
	}
	for _, v := range ma {
		if v != 0 {
			c.Violation("not-a-permutation", cluster("rows differ from the unordered result"), detail(rt.D{"diff": diffRows(u.Rows, o.Rows)}))
			return
		}
	}
	// lone order by key asc
	if len(stmt.OrderBy) == 1 && stmt.OrderBy[0].Name == "key" && !stmt.OrderBy[0].Desc {
		rec.Inc("lone_key_asc")
		if !drive.RowsEqual(o.Rows, u.Rows) {
			c.Violation("order-by-key-asc-changes-order", cluster("natural key order changed"), detail(nil))
			return
		}
	}
	// (2) sortedness under the reference comparator
	cmpRows := func(a, b []string) (int, bool, int) {
		for ki, ob := range stmt.OrderBy {
			i := idx[ob.Name]
			cv, ok := refeval.CompareCols(tps[ob.Name], a[i], b[i])
			if !ok {
				return 0, false, ki
			}
			if ob.Desc {
				cv = -cv
			}
			if cv != 0 {
				return cv, true, ki
			}
		}
		return 0, true, -1
	}
	distinctFirst := map[string]bool{}
	sawInt, sawFloat := false, false
	for i, row := range o.Rows {
		fi := idx[stmt.OrderBy[0].Name]
		distinctFirst[row[fi]] = true
		if strings.HasPrefix(row[fi], "I") {
			sawInt = true
		}
		if strings.HasPrefix(row[fi], "F") {
			sawFloat = true
		}
		if i == 0 {
			continue
		}
		cv, ok, ki := cmpRows(o.Rows[i-1], row)
		if !ok {
			rec.NotJudged("a sort value does not fit its declared type")
			return
		}
		if cv > 0 {
			c.Violation("adjacent-rows-out-of-order", cluster(sprintf("key %d decides", ki)), detail(rt.D{"row_index": i, "previous": o.Rows[i-1], "row": row}))
			return
		}
		if ki > 0 {
			rec.Inc("tie_resolved_by_later_key")
		}
	}
	if sawInt && sawFloat {
		rec.Inc("mixed_int_float_column")
	}
	for _, ob := range stmt.OrderBy {
		rec.Inc("type:" + string(tps[ob.Name]))
		if ob.Desc {
			rec.Inc("desc_keys")
		}
	}
	if len(o.Rows) >= 2 && len(distinctFirst) >= 2 {
		rec.DistinctS(q + "\x00" + pairsKey(pairs))
	}
	if c.Case%400 == 0 {
		rec.Sample(rt.D{"ordered": q, "rows": len(o.Rows), "mode": mode.String()})
	}
}
