#!/usr/bin/env python3
"""Replaces the per-property seeded-defect table in DESIGN.md (section 7) by the output of seeded_table.py."""
import subprocess, os, re
V = os.path.dirname(os.path.dirname(os.path.abspath(__file__)))
out = subprocess.run(["python3", os.path.join(V, "tools/seeded_table.py")], capture_output=True, text=True).stdout
tab = out[:out.index("\n\n")] if "\n\n" in out else out
p = os.path.join(V, "DESIGN.md"); s = open(p).read()
i = s.index("| property | kept | own check reports |")
j = s.index("\n\n", i)
s = s[:i] + tab + s[j:]
open(p, "w").write(s)
print(out.strip().splitlines()[-1])
