package gen

import (
	"fmt"

	"kvqlverif/rt"
)

// FullGen generates statements of the full language (every scalar and
// aggregate function, aliases, ORDER BY, GROUP BY, LIMIT, PUT/REMOVE/DELETE).
// Shapes are those the checker accepts (DESIGN Appendix E).
type FullGen struct {
	R       *rt.Rand
	KeyLits []string
	ValLits []string
	Avoid   map[string]bool
	// aliases visible to expressions being generated (definitions are of the
	// given type); filled by Select while it builds the field list
	aliases      []*Node // KRef nodes
	NoAlias      bool
	NoJSON       bool
	NoList       bool
	NoSubstr     bool
	Family       string
	RefBias      int // extra chance that an operand is an alias reference
	NoUnequalVec bool
	RawListHead  bool // list(value, ..): the element kind follows the raw text of each pair
}

func (g *FullGen) pick(xs []string) string { return xs[g.R.Intn(len(xs))] }

func (g *FullGen) lit() *Node {
	pool := g.ValLits
	if g.R.Bool() || len(pool) == 0 {
		pool = g.KeyLits
	}
	if len(pool) == 0 {
		return Str("a")
	}
	return Str(g.pick(pool))
}

func (g *FullGen) refOf(t T) *Node {
	if g.NoAlias {
		return nil
	}
	var c []*Node
	for _, a := range g.aliases {
		if a.T == t {
			c = append(c, a)
		}
	}
	if len(c) == 0 {
		return nil
	}
	a := c[g.R.Intn(len(c))]
	return Ref(a.Op, a.Def)
}

// operand wraps: with some probability return an alias of the wanted type.
func (g *FullGen) maybeRef(t T, otherwise func() *Node) *Node {
	if g.R.Chance(1, 3) {
		if r := g.refOf(t); r != nil {
			return r
		}
	}
	return otherwise()
}

var seps = []string{",", "-", ":", "|", "ab"}

// S returns a text-typed expression. asOperand: the node will be a direct
// operand of a binary operator or a call argument (aliases allowed there).
func (g *FullGen) S(d int, asOperand bool) *Node {
	r := g.R
	if asOperand && r.Chance(1+g.RefBias, 6) {
		if x := g.refOf(TS); x != nil {
			return x
		}
	}
	if g.Family == FJSON && !g.NoJSON && r.Chance(1, 3) {
		// members of every JSON kind: text, number, nested object, array, array of objects
		n := IndexS(Call("json", Value()), g.pick([]string{"x", "y", "list", "o", "o", "nope"}))
		switch r.Intn(4) {
		case 0:
			n = IndexS(n, g.pick([]string{"y", "o", "z"}))
		case 1:
			n = IndexI(n, int64(r.Range(0, 2)))
			if r.Bool() {
				n = IndexS(n, "a")
			}
		}
		return n
	}
	if d <= 0 {
		switch r.Intn(3) {
		case 0:
			return Key()
		case 1:
			return Value()
		}
		return g.lit()
	}
	switch r.Intn(12) {
	case 0:
		return Call("upper", g.S(d-1, true))
	case 1:
		return Call("lower", g.S(d-1, true))
	case 2:
		return Bin("+", g.S(d-1, true), g.S(d-1, true))
	case 3:
		return Call("str", g.N(d-1, true))
	case 4:
		if g.NoSubstr {
			return g.S(0, false)
		}
		return Call("substr", g.S(d-1, true), Int(int64(r.Range(0, 3))), Int(int64(r.Range(0, 4))))
	case 5:
		n := r.Range(1, 3)
		args := []*Node{Str(g.pick(seps))}
		for i := 0; i < n; i++ {
			if r.Bool() {
				args = append(args, g.S(d-1, true))
			} else {
				args = append(args, g.N(d-1, true))
			}
		}
		return Call("join", args...)
	case 6:
		if g.NoList {
			return g.S(0, false)
		}
		return IndexI(Call("split", g.S(d-1, true), Str(g.pick(seps))), int64(r.Range(0, 2)))
	case 7:
		if g.NoJSON {
			return g.S(0, false)
		}
		n := IndexS(Call("json", Value()), g.pick([]string{"x", "y", "list", "o", "nope"}))
		if r.Chance(1, 3) {
			if r.Bool() {
				n = IndexS(n, "y")
			} else {
				n = IndexI(n, int64(r.Range(0, 2)))
			}
		}
		return n
	case 8:
		return Call("str", g.S(d-1, true))
	}
	return g.S(0, false)
}

func (g *FullGen) intLit() *Node {
	return Int(int64([]int{0, 1, 2, 3, 5, 7, 10, 12, 25, 100}[g.R.Intn(10)]))
}
func (g *FullGen) fltLit() *Node { return Float(floatLits[g.R.Intn(len(floatLits))]) }

func (g *FullGen) N(d int, asOperand bool) *Node {
	r := g.R
	if asOperand && r.Chance(1+g.RefBias, 6) {
		if x := g.refOf(TN); x != nil {
			return x
		}
	}
	if d <= 0 {
		switch r.Intn(6) {
		case 0, 1:
			return g.intLit()
		case 2:
			return g.fltLit()
		case 3:
			return Call("int", Value())
		case 4:
			return Call("float", Value())
		}
		return Call("strlen", Key())
	}
	switch r.Intn(10) {
	case 0, 1, 2:
		op := []string{"+", "-", "*", "/"}[r.Intn(4)]
		l, rr := g.N(d-1, true), g.N(d-1, true)
		if op == "/" {
			if r.Bool() {
				rr = Int(int64([]int{1, 2, 3, 5}[r.Intn(4)]))
			} else {
				rr = Float([]string{"0.5", "2.0", "0.25"}[r.Intn(3)])
			}
		}
		return Bin(op, l, rr)
	case 3:
		return Call("int", g.S(d-1, true))
	case 4:
		return Call("float", g.S(d-1, true))
	case 5:
		return Call("strlen", g.S(d-1, true))
	case 6:
		if g.NoList {
			return g.N(0, false)
		}
		return Call("len", g.L(d-1, true))
	case 7:
		if g.NoList {
			return g.N(0, false)
		}
		k := r.Range(1, 3)
		a, b := g.numList(k), g.numList(k)
		if r.Chance(1, 10) && !g.NoUnequalVec {
			b = g.numList(k + 1) // unequal lengths: must be an error in both modes
		}
		if r.Bool() {
			return Call("l2_distance", a, b)
		}
		return Call("cosine_distance", a, b)
	}
	return g.N(0, false)
}

func (g *FullGen) numList(k int) *Node {
	r := g.R
	name := []string{"list", "int_list", "float_list", "ilist", "flist"}[r.Intn(5)]
	args := make([]*Node, k)
	for i := range args {
		if i == 0 && name == "list" && g.RawListHead && r.Chance(1, 3) {
			// the raw text decides the list's element kind, pair by pair (differential checks only:
			// what list() of mixed kinds holds is not documented, that both modes agree is required)
			args[i] = Value()
			continue
		}
		switch r.Intn(4) {
		case 0:
			args[i] = Call("int", Value())
		case 1:
			args[i] = g.fltLit()
		case 2:
			args[i] = Call("strlen", Key())
		default:
			args[i] = g.intLit()
		}
	}
	return Call(name, args...)
}

func (g *FullGen) L(d int, asOperand bool) *Node {
	r := g.R
	if asOperand && r.Chance(1+g.RefBias, 5) {
		if x := g.refOf(TL); x != nil {
			return x
		}
	}
	if r.Bool() {
		return Call("split", g.S(d-1, true), Str(g.pick(seps)))
	}
	return g.numList(r.Range(1, 4))
}

func (g *FullGen) B(d int, asOperand bool) *Node {
	r := g.R
	if asOperand && r.Chance(1+g.RefBias, 7) {
		if x := g.refOf(TB); x != nil {
			return x
		}
	}
	if d <= 0 || r.Chance(1, 3) {
		return g.atom(d)
	}
	switch r.Intn(5) {
	case 0:
		return Not(g.B(d-1, false))
	default:
		l, rr := g.B(d-1, true), g.B(d-1, true)
		var n *Node
		if r.Bool() {
			n = And(l, rr)
		} else {
			n = Or(l, rr)
		}
		n.Sym = r.Bool()
		return n
	}
}

func (g *FullGen) atom(d int) *Node {
	r := g.R
	if d < 0 {
		d = 0
	}
	for {
		switch r.Intn(11) {
		case 0, 1:
			a, b := g.S(d, true), g.S(d, true)
			if sameField(a, b) {
				continue
			}
			op := cmpS[r.Intn(len(cmpS))]
			if op == "~=" {
				switch r.Intn(4) {
				case 0:
					if a.K == KValue {
						b = Key()
					} else {
						b = Value()
					}
				case 1:
					b = Bin("+", Str("^"), Key())
				default:
					b = Str(rePool[r.Intn(len(rePool))])
				}
			}
			return Bin(op, a, b)
		case 2, 3:
			return Bin(cmpN[r.Intn(len(cmpN))], g.N(d, true), g.N(d, true))
		case 4:
			var f *Node
			if r.Bool() {
				f = Key()
			} else {
				f = g.S(d, true)
			}
			n := r.Range(1, 4)
			items := make([]*Node, n)
			for i := range items {
				items[i] = g.lit()
			}
			return In(f, items...)
		case 5:
			n := r.Range(1, 3)
			items := make([]*Node, n)
			for i := range items {
				items[i] = g.intLit()
			}
			return In(g.N(d, true), items...)
		case 6:
			if g.NoList {
				continue
			}
			if r.Bool() {
				return InExpr(g.S(d, true), Call("split", g.S(d, true), Str(g.pick(seps))))
			}
			if x := g.refOf(TL); x != nil {
				if x.ET == TS {
					return InExpr(g.S(d, true), x)
				}
				return InExpr(g.N(d, true), x)
			}
			return InExpr(g.N(d, true), g.numList(r.Range(1, 3)))
		case 7:
			a, b := g.lit(), g.lit()
			if a.S == b.S {
				continue
			}
			if a.S > b.S {
				a, b = b, a
			}
			var f *Node
			if r.Bool() {
				f = Key()
			} else {
				f = g.S(d, true)
			}
			return Between(f, a, b)
		case 8:
			lo := int64(r.Range(0, 10))
			return Between(g.N(d, true), Int(lo), Int(lo+int64(r.Range(1, 20))))
		case 9:
			if r.Bool() {
				return Call("is_int", g.S(d, true))
			}
			return Call("is_float", g.S(d, true))
		case 10:
			// key-pinning atoms so that every scan kind occurs
			l := Str(g.pick(append([]string{"k", "a"}, g.KeyLits...)))
			// the key itself, or a select field that is just the key under a name
			kx := Key()
			if r.Chance(1+g.RefBias, 5) {
				for _, a := range g.aliases {
					if a.Def != nil && a.Def.K == KKey {
						kx = a
						break
					}
				}
			}
			switch r.Intn(6) {
			case 0:
				return Bin("^=", kx, l)
			case 1:
				return Bin("=", kx, l)
			case 2:
				return Bin(">=", kx, l)
			case 3:
				return Bin("^=", l, kx) // the literal starts with the key: pins nothing
			case 4:
				return Bin("=", l, kx)
			}
			return Bin("<", kx, l)
		}
	}
}

// Aggr returns an aggregate call (possibly with arithmetic around it).
func (g *FullGen) Aggr(d int) *Node {
	r := g.R
	var a *Node
	switch r.Intn(9) {
	case 0:
		a = Call("count", Int(1))
	case 1:
		a = Call("sum", g.N(d, true))
	case 2:
		a = Call("avg", g.N(d, true))
	case 3:
		a = Call("min", g.N(d, true))
	case 4:
		a = Call("max", g.N(d, true))
	case 5:
		a = Call("group_concat", g.S(d, true), Str(g.pick(seps)))
	case 6:
		a = Call("json_arrayagg", g.S(d, true))
	case 7:
		a = Call("quantile", g.N(d, true), Float([]string{"0.5", "0.9", "1.0", "0.25"}[r.Intn(4)]))
	default:
		a = Call("count", g.S(d, true))
	}
	if a.T == TN && r.Chance(1, 4) {
		if r.Bool() {
			return Bin("+", a, g.intLit())
		}
		return Bin("*", a, Call("count", Int(1)))
	}
	return a
}

var aliasNames = []string{"f1", "n1", "s2", "b3", "l4", "kp", "vv", "zz9", "a_b", "x"}

func (g *FullGen) freshAlias(used map[string]bool) string {
	for {
		n := g.pick(aliasNames) + fmt.Sprint(g.R.Intn(3))
		if !used[n] {
			used[n] = true
			return n
		}
	}
}

// Select builds a SELECT statement.
func (g *FullGen) Select(depth int) *Stmt {
	r := g.R
	s := &Stmt{Kind: "select"}
	g.aliases = nil
	used := map[string]bool{}
	aggregate := r.Chance(1, 4)
	if aggregate {
		ng := r.Range(0, 2)
		for i := 0; i < ng; i++ {
			var e *Node
			switch r.Intn(4) {
			case 0:
				e = Value()
			case 1:
				e = Call("strlen", Key())
			case 2:
				e = Call("upper", Value())
			default:
				e = g.S(1, false)
			}
			al := g.freshAlias(used)
			s.Fields = append(s.Fields, Field{E: e, Alias: al})
			s.GroupBy = append(s.GroupBy, al)
			g.aliases = append(g.aliases, Ref(al, e))
		}
		// aggregate arguments must not reference group aliases of list type etc.; keep aliases visible
		na := r.Range(1, 3)
		for i := 0; i < na; i++ {
			e := g.Aggr(depth - 1)
			f := Field{E: e}
			if r.Bool() {
				f.Alias = g.freshAlias(used)
			}
			s.Fields = append(s.Fields, f)
		}
		r2 := r.Intn(len(s.Fields) + 1)
		if r2 < len(s.Fields) && len(s.Fields) > 1 { // shuffle one field to the front
			s.Fields[0], s.Fields[r2] = s.Fields[r2], s.Fields[0]
		}
		// WHERE must not use aggregate aliases
		save := g.aliases
		s.Where = g.whereClause(depth)
		g.aliases = save
	} else if r.Chance(1, 4) {
		s.Star = true
		s.Where = g.whereClause(depth)
	} else {
		nf := r.Range(1, 4)
		for i := 0; i < nf; i++ {
			var e *Node
			switch r.Intn(8) {
			case 0:
				e = Key()
			case 1:
				e = Value()
			case 2, 3:
				e = g.S(depth, false)
			case 4, 5:
				e = g.N(depth, false)
			case 6:
				e = g.B(depth-1, false)
			default:
				if g.NoList {
					e = g.N(depth, false)
				} else {
					e = g.L(depth, false)
				}
			}
			f := Field{E: e}
			if r.Chance(2, 3) && e.K != KKey && e.K != KValue {
				f.Alias = g.freshAlias(used)
				g.aliases = append(g.aliases, Ref(f.Alias, e))
			}
			s.Fields = append(s.Fields, f)
		}
		s.Where = g.whereClause(depth)
	}
	// ORDER BY
	if r.Chance(1, 3) {
		var names []string
		if s.Star {
			names = []string{"key", "value"}
		}
		for _, f := range s.Fields {
			t := f.E.T
			if f.Alias != "" && (t == TS || t == TN || t == TB) {
				names = append(names, f.Alias)
			} else if f.Alias == "" && f.E.K == KKey {
				names = append(names, "key")
			} else if f.Alias == "" && f.E.K == KValue {
				names = append(names, "value")
			}
		}
		if len(names) > 0 {
			n := r.Range(1, 3)
			seen := map[string]bool{}
			for i := 0; i < n; i++ {
				nm := g.pick(names)
				if seen[nm] && !r.Chance(1, 3) { // now and then the same column twice
					continue
				}
				seen[nm] = true
				s.OrderBy = append(s.OrderBy, OrderItem{Name: nm, Desc: r.Bool(), Bare: r.Bool()})
			}
		}
	}
	if r.Chance(1, 3) {
		g.limit(s)
	}
	return s
}

func (g *FullGen) limit(s *Stmt) {
	r := g.R
	s.HasLim = true
	s.Start = []int{0, 0, 1, 2, 3, 5, 31, 32, 33, 64}[r.Intn(10)]
	s.Count = []int{0, 1, 2, 3, 5, 10, 32, 33, 100}[r.Intn(9)]
	s.LimOne = r.Bool()
}

func (g *FullGen) whereClause(depth int) *Node {
	r := g.R
	switch r.Intn(12) {
	case 0:
		return Bool(true)
	case 1:
		return Bin("^=", Key(), Str(g.pick([]string{"k", "k0", "a", ""})))
	case 2, 3:
		// a key-pinning conjunct (every access path) with a selective residual predicate
		lits := append([]string{"k", "a", "k0"}, g.KeyLits...)
		var pin *Node
		switch r.Intn(5) {
		case 0:
			pin = Bin("^=", Key(), Str(g.pick([]string{"k", "k0", "a", "", "k1"})))
		case 1:
			a, b := g.pick(lits), g.pick(lits)
			if a > b {
				a, b = b, a
			}
			pin = And(Bin(">=", Key(), Str(a)), Bin("<=", Key(), Str(b+"z")))
		case 2:
			n := r.Range(2, 6)
			items := make([]*Node, n)
			for i := range items {
				items[i] = Str(g.pick(lits))
			}
			pin = In(Key(), items...)
		case 3:
			a, b := g.pick(lits), g.pick(lits)
			if a == b {
				b = a + "z"
			}
			if a > b {
				a, b = b, a
			}
			pin = Between(Key(), Str(a), Str(b))
		default:
			pin = Bin(">", Key(), Str(g.pick(lits)))
		}
		return And(pin, g.B(depth-1, true))
	}
	return g.B(depth, false)
}

// Write statements.

func (g *FullGen) Put() *Stmt {
	r := g.R
	g.aliases = nil
	s := &Stmt{Kind: "put"}
	n := r.Range(1, 5)
	for i := 0; i < n; i++ {
		var k, v *Node
		switch r.Intn(4) {
		case 0:
			k = Str(g.pick(append([]string{"p1", "p2", "k001"}, g.KeyLits...)))
		case 1:
			k = Bin("+", Str("p"), Call("str", g.intLit()))
		case 2:
			k = g.intLit()
		default:
			k = Call("upper", Str(g.pick([]string{"ka", "kb"})))
		}
		switch r.Intn(5) {
		case 0:
			v = Str(g.pick([]string{"v1", "", "x,y"}))
		case 1:
			v = Bin("+", Str("v_"), Key())
		case 2:
			v = Call("upper", Key())
		case 3:
			v = Bin("*", g.intLit(), g.intLit())
		default:
			v = Call("join", Str(","), g.intLit(), Key())
		}
		s.Pairs = append(s.Pairs, [2]*Node{k, v})
	}
	return s
}

func (g *FullGen) Remove() *Stmt {
	r := g.R
	g.aliases = nil
	s := &Stmt{Kind: "remove"}
	n := r.Range(1, 4)
	for i := 0; i < n; i++ {
		switch r.Intn(3) {
		case 0:
			s.Keys = append(s.Keys, Str(g.pick(append([]string{"p1", "k001"}, g.KeyLits...))))
		case 1:
			s.Keys = append(s.Keys, Bin("+", Str("k"), Str(g.pick([]string{"1", "01", "a"}))))
		default:
			s.Keys = append(s.Keys, g.intLit())
		}
	}
	return s
}

func (g *FullGen) Delete(depth int) *Stmt {
	g.aliases = nil
	save := g.NoAlias
	g.NoAlias = true
	s := &Stmt{Kind: "delete", Where: g.whereClause(depth)}
	g.NoAlias = save
	if g.R.Chance(1, 3) {
		g.limit(s)
	}
	return s
}

// Any returns a statement of any kind.
func (g *FullGen) Any(depth int) *Stmt {
	switch g.R.Intn(10) {
	case 0:
		return g.Put()
	case 1:
		return g.Remove()
	case 2:
		return g.Delete(depth)
	}
	return g.Select(depth)
}
