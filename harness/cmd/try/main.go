package main

import (
	"fmt"
	"os"

	"kvqlverif/checks"
	"kvqlverif/drive"
	"kvqlverif/refstore"
)

func main() {
	for _, q := range os.Args[1:] {
		st := refstore.New(checks.C18StoreForDebug())
		o := drive.Run(q, st, drive.Mode{Size: 32, Cache: true})
		fmt.Printf("%q status=%s rows=%d\n", q, o.Status(), len(o.Rows))
		for _, l := range refstore.FormatLog(st.Log()) {
			fmt.Println("  ", l)
		}
	}
}
