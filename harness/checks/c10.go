package checks

import (
	"fmt"
	"math"
	"strconv"
	"strings"

	"kvqlverif/drive"
	"kvqlverif/gen"
	"kvqlverif/refeval"
	"kvqlverif/refstore"
	"kvqlverif/rt"
)

// C10 — scalar functions and list/JSON indexing compute their documented
// values. Reference re-implementation (refeval) of each function from its
// README description; values observed as select fields and WHERE outcomes,
// with constant and row-dependent arguments, in row and batch mode.

type c10 struct{ rt.Base }

func init() { rt.Register(&c10{}) }

func (c10) ID() string { return "C10" }

var c10Texts = []string{"", "a", "Ab", "a,b", ",", "12", "-3", "007", "1.5", "-0.25", "x1", "0.1", "3.14159", "a,b,c", "a-b", "1,2,3", "0.5,1.5", "Hello World", "abab", "-0.3", "16777217", "10", "zzz", "1,2", "3,4,5", "a:b:c", "k_v", "A", "1e3", " 1", ".5", "010", "-025", "0100", "00012", "0.0078125", "-3.00390625", "0.0009765625", "1e-7", "123456.7890625", "-9223372036854775808", "+9223372036854775807", "00000000000000000000042", "-1000000000000000000", "9223372036854775808", "Zebra Quiz", "XYZ", "18446744073709551616", "100000000000000000000", "9007199254740993", "-9007199254740995"} // the last two since wave 15: integers no float64 holds (C09-ab, C10-ab)
var c10JSON = []string{`{"x":1,"y":"s"}`, `{"x":"str","list":[1,2,3]}`, `{"x":2.5,"o":{"y":"deep","z":[10,20]}}`, `{"list":["a","b"],"x":true}`, `{"list":[0.5,1.5,2.5],"o":{"y":"q"}}`, `{"x":"","y":"t","list":[7]}`}

type c10Tmpl struct {
	name  string
	build func(arg *gen.Node) *gen.Node
	fn    string
}

func c10Unary() []c10Tmpl {
	t := []c10Tmpl{
		{"upper", func(a *gen.Node) *gen.Node { return gen.Call("upper", a) }, "upper"},
		{"lower", func(a *gen.Node) *gen.Node { return gen.Call("lower", a) }, "lower"},
		{"strlen", func(a *gen.Node) *gen.Node { return gen.Call("strlen", a) }, "strlen"},
		{"str", func(a *gen.Node) *gen.Node { return gen.Call("str", a) }, "str"},
		{"int", func(a *gen.Node) *gen.Node { return gen.Call("int", a) }, "int"},
		{"float", func(a *gen.Node) *gen.Node { return gen.Call("float", a) }, "float"},
		{"is_int", func(a *gen.Node) *gen.Node { return gen.Call("is_int", a) }, "is_int"},
		{"is_float", func(a *gen.Node) *gen.Node { return gen.Call("is_float", a) }, "is_float"},
		{"str(int)", func(a *gen.Node) *gen.Node { return gen.Call("str", gen.Call("int", a)) }, "str"},
		{"int(str(int))", func(a *gen.Node) *gen.Node { return gen.Call("int", gen.Call("str", gen.Call("int", a))) }, "int"},
		{"strlen(int)", func(a *gen.Node) *gen.Node { return gen.Call("strlen", gen.Call("int", a)) }, "strlen"},
		{"float(int)", func(a *gen.Node) *gen.Node { return gen.Call("float", gen.Call("int", a)) }, "float"},
		{"len(split)", func(a *gen.Node) *gen.Node { return gen.Call("len", gen.Call("split", a, gen.Str(","))) }, "len"},
		{"split", func(a *gen.Node) *gen.Node { return gen.Call("split", a, gen.Str(",")) }, "split"},
		{"split-", func(a *gen.Node) *gen.Node { return gen.Call("split", a, gen.Str("-")) }, "split"},
		{"splitab", func(a *gen.Node) *gen.Node { return gen.Call("split", a, gen.Str("ab")) }, "split"},
		{"join", func(a *gen.Node) *gen.Node { return gen.Call("join", gen.Str(","), a, gen.Int(7), a) }, "join"},
		{"join-", func(a *gen.Node) *gen.Node { return gen.Call("join", gen.Str("-"), gen.Str("x"), a) }, "join"},
		{"join-inverse", func(a *gen.Node) *gen.Node {
			sp := func() *gen.Node { return gen.Call("split", a, gen.Str(",")) }
			return gen.Call("join", gen.Str(","), gen.IndexI(sp(), 0), gen.IndexI(sp(), 1))
		}, "join"},
		{"strlen+", func(a *gen.Node) *gen.Node { return gen.Bin("+", gen.Call("strlen", a), gen.Int(1)) }, "strlen"},
		{"upper(lower)", func(a *gen.Node) *gen.Node { return gen.Call("upper", gen.Call("lower", a)) }, "upper"},
	}
	for i := int64(0); i < 4; i++ {
		ii := i
		t = append(t, c10Tmpl{fmt.Sprintf("split[%d]", i), func(a *gen.Node) *gen.Node { return gen.IndexI(gen.Call("split", a, gen.Str(",")), ii) }, "split"})
	}
	return t
}

var c10UnaryT = c10Unary()

func (c10) NumCases(tier string) int {
	ex := len(c10UnaryT) * 2 // constant form block + row form per template
	if tier == "thorough" {
		return ex + 120000
	}
	return ex + 8000
}

func (c10) Exhaustive(string) bool { return true }

func (c10) Rule() string {
	return fmt.Sprintf("exhaustive: %d unary function templates (upper, lower, strlen, str, int, float, is_int, is_float, split with 3 separators and every index, len, join and the split/join inverse) x a pool of %d texts, each with constant arguments and with row-dependent arguments (the pool is the store), in row and batch mode; sampled: list constructors (list/int_list/ilist/float_list/flist) with [i], len and IN over every list representation, l2_distance / cosine_distance over equal and unequal lengths, json(text)[k]...[n] navigation over %d documents, integer and float pools. Arguments whose reading the documentation leaves open are not judged. Non-trivial: the reference defines the value; distinct by (statement, argument) hash.", len(c10UnaryT), len(c10Texts), len(c10JSON))
}

func (c10) Assumptions() []string {
	return []string{"refeval's re-implementation of each function from its one-line README description is the trusted base", "float results are compared with relative tolerance 1e-12; decimal text is read to the nearest double (big.Rat)", "not judged: int()/float() of non-plain-decimal text, upper/lower on non-ASCII, out-of-range indexes, str() of floats (register B2, B6, B15)"}
}

func (c10) Gates(tier string, m map[string]int64) []rt.Gate {
	var gs []rt.Gate
	for _, f := range []string{"upper", "lower", "strlen", "str", "int", "float", "is_int", "is_float", "split", "join", "len", "list", "int_list", "float_list", "l2_distance", "cosine_distance", "json", "index"} {
		for _, cell := range []string{"const/row", "const/batch", "rowdep/row", "rowdep/batch"} {
			gs = append(gs, rt.GateMin(f+" observed in cell "+cell, m, "cell:"+f+":"+cell, 1))
		}
	}
	gs = append(gs, rt.GateMin("values compared with the reference", m, "values_compared", 5000), rt.GateMin("unequal-length distance calls (must fail)", m, "distance_must_fail", 20),
		rt.GateMin("non-dyadic decimal texts read by float()", m, "nondyadic_float_text", 4),
		rt.Gate{Name: "statements rejected at plan time stay below 1%", Observed: m["rejected"], Need: m["values_compared"] / 100, OK: m["rejected"] <= m["values_compared"]/100})
	return gs
}

func c10Store() []refstore.Pair {
	var ps []refstore.Pair
	for i, t := range c10Texts {
		ps = append(ps, refstore.Pair{K: fmt.Sprintf("t%02d", i), V: t})
	}
	return ps
}

var c10TextStore = c10Store()

func c10JSONStore() []refstore.Pair {
	var ps []refstore.Pair
	for i, t := range c10JSON {
		ps = append(ps, refstore.Pair{K: fmt.Sprintf("j%02d", i), V: t})
	}
	return ps
}

func (k c10) Run(c *rt.Ctx) {
	idx := c.Case
	nu := len(c10UnaryT)
	switch {
	case idx < nu: // constant arguments: one statement per text
		t := c10UnaryT[idx]
		for _, txt := range c10Texts {
			if !gen.Printable(txt) {
				continue
			}
			k.judgeField(c, t.build(gen.Str(txt)), []refstore.Pair{{K: "k1", V: "v"}, {K: "k2", V: "w"}}, t.fn, "const")
		}
	case idx < 2*nu: // row-dependent arguments: the pool is the store
		t := c10UnaryT[idx-nu]
		k.judgeField(c, t.build(gen.Value()), c10TextStore, t.fn, "rowdep")
		k.judgeField(c, t.build(gen.Bin("+", gen.Value(), gen.Str(""))), c10TextStore, t.fn, "rowdep")
	default:
		if idx%9 == 0 {
			// row-dependent separator: the key is the separator of its value
			sepStore := []refstore.Pair{{K: ",", V: "a,b"}, {K: "-", V: "a-b-c"}, {K: ":", V: "a:b"}, {K: "_", V: "k_v_w"}, {K: "ab", V: "xabyabz"}, {K: "|", V: "no separator here"}, {K: "x", V: "x"}}
			sp := func() *gen.Node { return gen.Call("split", gen.Value(), gen.Key()) }
			k.judgeField(c, sp(), sepStore, "split", "rowdep")
			k.judgeField(c, gen.Call("len", sp()), sepStore, "len", "rowdep")
			k.judgeField(c, gen.IndexI(sp(), int64(idx/9%2)), sepStore, "split", "rowdep")
			k.judgeField(c, gen.Call("join", gen.Key(), gen.IndexI(sp(), 0), gen.IndexI(sp(), 1)), sepStore, "join", "rowdep")
			return
		}
		k.random(c)
	}
}

func (k c10) random(c *rt.Ctx) {
	r := c.R
	numStore := gen.Dense(r.Range(3, 40), "n", func(i int) string { return strconv.Itoa((i*7)%23 - 5) })
	ints := []int64{0, 1, -1, 7, 1000000000000, 3, 12, 9007199254740993, 9223372036854775807}
	flts := []string{"0.5", "1.5", "2.0", "0.25", "3.75", "0.1", "2.5"}
	numArg := func(rowdep bool) *gen.Node {
		switch r.Intn(5) {
		case 0:
			if rowdep {
				return gen.Call("int", gen.Value())
			}
			return gen.Int(ints[r.Intn(len(ints))])
		case 1:
			if rowdep {
				return gen.Call("strlen", gen.Key())
			}
			return gen.Int(int64(r.Range(0, 9)))
		case 2:
			return gen.Float(flts[r.Intn(len(flts))])
		case 3:
			if rowdep {
				return gen.Bin("*", gen.Call("int", gen.Value()), gen.Int(2))
			}
			return gen.Int(ints[r.Intn(len(ints))])
		}
		return gen.Int(int64(r.Range(1, 5)))
	}
	intArg := func(rowdep bool) *gen.Node {
		if rowdep && r.Bool() {
			return gen.Call("int", gen.Value())
		}
		return gen.Int(ints[r.Intn(len(ints))])
	}
	mkList := func(rowdep bool, n int, floaty bool) *gen.Node {
		name := []string{"list", "int_list", "ilist"}[r.Intn(3)]
		if floaty {
			name = []string{"list", "float_list", "flist"}[r.Intn(3)]
		}
		args := make([]*gen.Node, n)
		for i := range args {
			if floaty {
				args[i] = gen.Float(flts[r.Intn(len(flts))])
				if name != "list" && r.Chance(1, 3) {
					args[i] = intArg(rowdep)
				}
			} else {
				args[i] = intArg(rowdep)
			}
		}
		return gen.Call(name, args...)
	}
	rowdep := r.Bool()
	cell := "const"
	if rowdep {
		cell = "rowdep"
	}
	switch r.Intn(7) {
	case 0: // list constructors: whole list, [i], len
		n := r.Range(1, 4)
		l := mkList(rowdep, n, r.Bool())
		k.judgeField(c, l, numStore, l.Op, cell)
		k.judgeField(c, gen.Call("len", l), numStore, "len", cell)
		for i := 0; i < n; i++ {
			k.judgeField(c, gen.IndexI(l, int64(i)), numStore, "index", cell)
		}
		_ = numArg
		if r.Chance(1, 2) {
			// a list of texts (README: "the list type support int, str, float types")
			words := []string{"a", "b", "zz", "it is", "x,y", "Key"}
			m := r.Range(1, 4)
			el := make([]*gen.Node, m)
			for i := range el {
				el[i] = gen.Str(words[r.Intn(len(words))])
				if rowdep && r.Bool() {
					el[i] = []*gen.Node{gen.Bin("+", gen.Str("p"), gen.Value()), gen.Call("upper", gen.Bin("+", gen.Str("k"), gen.Key())), gen.Bin("+", gen.Str("v:"), gen.Key())}[r.Intn(3)]
				}
			}
			tl := gen.Call("list", el...)
			tl.ET = gen.TS
			k.judgeField(c, tl, numStore, "list", cell+"-texts")
			k.judgeField(c, gen.Call("len", tl), numStore, "len", cell+"-texts")
			for i := 0; i < m; i++ {
				k.judgeField(c, gen.IndexI(tl, int64(i)), numStore, "index", cell+"-texts")
			}
			k.judgeWhere(c, gen.InExpr(gen.Str(words[r.Intn(len(words))]), tl), numStore, "list", cell+"-texts")
			c.Rec.Inc("lists_of_texts")
		}
	case 1: // IN over list representations (WHERE outcome)
		l := mkList(rowdep, r.Range(1, 4), false)
		x := intArg(true)
		k.judgeWhere(c, gen.InExpr(x, l), numStore, "list", cell)
		k.judgeWhere(c, gen.InExpr(gen.Value(), gen.Call("split", gen.Str("12,-3,7,a"), gen.Str(","))), c10TextStore, "split", "const")
		k.judgeWhere(c, gen.InExpr(gen.Str("a"), gen.Call("split", gen.Value(), gen.Str(","))), c10TextStore, "split", "rowdep")
	case 2, 3: // distances
		n := r.Range(1, 4)
		m := n
		if r.Chance(1, 5) {
			m = n + r.Range(1, 2)
		}
		a, b := mkList(rowdep, n, r.Bool()), mkList(rowdep && r.Bool(), m, r.Bool())
		fn := []string{"l2_distance", "cosine_distance"}[r.Intn(2)]
		k.judgeField(c, gen.Call(fn, a, b), numStore, fn, cell)
		if r.Chance(1, 3) {
			// vector from split text / JSON array
			k.judgeField(c, gen.Call(fn, gen.Call("split", gen.Str("1,2,3"), gen.Str(",")), mkList(false, 3, r.Bool())), numStore, fn, "const")
			k.judgeField(c, gen.Call(fn, gen.IndexS(gen.Call("json", gen.Value()), "list"), mkList(false, 3, true)), c10JSONStore(), fn, "rowdep")
			// a store in which every document has a numeric array of the right length (one
			// document without it fails the whole statement and nothing is judged)
			vecStore := []refstore.Pair{{K: "e0", V: `{"list":[1,2,3]}`}, {K: "e1", V: `{"list":[0.5,1.5,2.5]}`}, {K: "e2", V: `{"list":[7,0,-2]}`}, {K: "e3", V: `{"list":[0.25,0.25,4]}`}}
			k.judgeField(c, gen.Call(fn, gen.IndexS(gen.Call("json", gen.Value()), "list"), mkList(false, 3, true)), vecStore, fn, "rowdep-json-array")
			k.judgeField(c, gen.Call(fn, mkList(false, 3, r.Bool()), gen.IndexS(gen.Call("json", gen.Value()), "list")), vecStore, fn, "rowdep-json-array")
			c.Rec.Inc("distances_over_json_arrays")
			// both vectors made of texts (each argument is converted on its own)
			half := func(i int64) *gen.Node { return gen.Call("split", gen.IndexI(gen.Call("split", gen.Value(), gen.Str(";")), i), gen.Str(",")) }
			twoStore := []refstore.Pair{{K: "t0", V: "1,2,3;4,6,3"}, {K: "t1", V: "0.5,1.5;2.5,0.25"}, {K: "t2", V: "7;-2"}, {K: "t3", V: "1,0,0,2;0,1,2,0"}, {K: "t4", V: "3,4;3,4"}}
			k.judgeField(c, gen.Call(fn, half(0), half(1)), twoStore, fn, "rowdep-two-text-vectors")
			k.judgeField(c, gen.Call(fn, half(1), half(0)), twoStore, fn, "rowdep-two-text-vectors")
			k.judgeField(c, gen.Call(fn, gen.Call("split", gen.Str("1,2,3"), gen.Str(",")), gen.Call("split", gen.Str("4,6,3"), gen.Str(","))), numStore, fn, "const")
			c.Rec.Inc("distances_of_two_text_vectors")
		}
	case 4: // JSON navigation
		paths := [][]any{{"x"}, {"y"}, {"list", 0}, {"list", 1}, {"list", 2}, {"o", "y"}, {"o", "z", 1}, {"list"}, {"o"}}
		p := paths[r.Intn(len(paths))]
		mk := func(base *gen.Node) *gen.Node {
			n := base
			for _, s := range p {
				switch v := s.(type) {
				case string:
					n = gen.IndexS(n, v)
				case int:
					n = gen.IndexI(n, int64(v))
				}
			}
			return n
		}
		k.judgeField(c, mk(gen.Call("json", gen.Value())), c10JSONStore(), "json", "rowdep")
		// len counts the elements of any list value, JSON arrays included
		k.judgeField(c, gen.Call("len", gen.IndexS(gen.Call("json", gen.Value()), "list")), c10JSONStore()[1:2], "len", "rowdep")
		k.judgeField(c, gen.Call("len", gen.IndexS(gen.Call("json", gen.Value()), "list")), c10JSONStore()[3:6], "len", "rowdep")
		k.judgeField(c, gen.Call("len", gen.IndexS(gen.IndexS(gen.Call("json", gen.Str(c10JSON[2])), "o"), "z")), []refstore.Pair{{K: "a", V: "b"}}, "len", "const")
		doc := c10JSON[r.Intn(len(c10JSON))]
		k.judgeField(c, mk(gen.Call("json", gen.Str(doc))), []refstore.Pair{{K: "a", V: "b"}, {K: "c", V: "d"}}, "json", "const")
		// a member that is text in one row and a number in the next: conversions look at each row's value
		{
			mixedA := []refstore.Pair{{K: "m00", V: `{"x":"12"}`}, {K: "m01", V: `{"x":7}`}, {K: "m02", V: `{"x":"3"}`}, {K: "m03", V: `{"x":2.5}`}, {K: "m04", V: `{"x":"40"}`}, {K: "m05", V: `{"x":9}`}}
			mixedB := []refstore.Pair{{K: "m00", V: `{"x":7}`}, {K: "m01", V: `{"x":"12"}`}, {K: "m02", V: `{"x":2.5}`}, {K: "m03", V: `{"x":"3"}`}, {K: "m04", V: `{"x":9}`}, {K: "m05", V: `{"x":"1.5"}`}}
			fn := []string{"int", "float", "str", "is_int", "is_float"}[r.Intn(5)]
			st := mixedA
			if r.Bool() {
				st = mixedB
			}
			k.judgeField(c, gen.Call(fn, gen.IndexS(gen.Call("json", gen.Value()), "x")), st, fn, "rowdep-mixed-member")
			c.Rec.Inc("json_member_of_mixed_type")
		}
		// several documents in one statement: each json() call parses its own argument
		y := func(doc *gen.Node) *gen.Node { return gen.IndexS(gen.Call("json", doc), "y") }
		constDoc := gen.Str(`{"y":"const","x":0}`)
		twoDocs := []refstore.Pair{{K: `{"y":"k1"}`, V: `{"x":1,"y":"s"}`}, {K: `{"y":"k2","x":5}`, V: `{"x":"","y":"t","list":[7]}`}, {K: `{"y":""}`, V: `{"y":"u"}`}}
		switch r.Intn(4) {
		case 0:
			k.judgeField(c, gen.Call("join", gen.Str("/"), y(gen.Value()), y(constDoc)), twoDocs, "json", "two-documents")
		case 1:
			k.judgeField(c, gen.Call("join", gen.Str("/"), y(constDoc), y(gen.Value())), twoDocs, "json", "two-documents")
		case 2:
			k.judgeField(c, gen.Call("join", gen.Str("/"), y(gen.Value()), y(gen.Key())), twoDocs, "json", "two-documents")
		default:
			k.judgeField(c, gen.Bin("+", gen.Bin("+", y(gen.Key()), gen.Str("<")), y(gen.Value())), twoDocs, "json", "two-documents")
		}
		c.Rec.Inc("two_json_documents")
	case 5: // numbers through str / strlen / float / int
		x := intArg(rowdep)
		k.judgeField(c, gen.Call("str", x), numStore, "str", cell)
		k.judgeField(c, gen.Call("strlen", x), numStore, "strlen", cell)
		k.judgeField(c, gen.Call("float", x), numStore, "float", cell)
		k.judgeField(c, gen.Call("int", x), numStore, "int", cell)
		k.judgeField(c, gen.Call("is_int", gen.Call("str", x)), numStore, "is_int", cell)
		k.judgeField(c, gen.Call("float", gen.Float(flts[r.Intn(len(flts))])), numStore, "float", "const")
	default: // join with several argument kinds; upper/lower of concatenations
		sep := []string{",", "-", "", "ab"}[r.Intn(4)]
		args := []*gen.Node{gen.Str(sep)}
		for i := 0; i < r.Range(1, 4); i++ {
			switch r.Intn(3) {
			case 0:
				args = append(args, intArg(rowdep))
			case 1:
				if rowdep {
					args = append(args, gen.Value())
				} else {
					args = append(args, gen.Str(c10Texts[r.Intn(8)]))
				}
			default:
				args = append(args, gen.Key())
			}
		}
		k.judgeField(c, gen.Call("join", args...), numStore, "join", cell)
		if rowdep {
			// the same functions with their arguments named as select fields
			uk, lv := gen.Ref("uk", gen.Call("upper", gen.Key())), gen.Ref("lv", gen.Call("lower", gen.Value()))
			n1 := gen.Ref("n1", gen.Call("strlen", gen.Key()))
			switch r.Intn(4) {
			case 0:
				k.judgeField(c, gen.Call("join", gen.Str(sep), uk, lv), numStore, "join", "named-args")
			case 1:
				k.judgeField(c, gen.Call("join", gen.Str(sep), n1, gen.Key(), lv), numStore, "join", "named-args")
			case 2:
				k.judgeField(c, gen.Call("upper", gen.Bin("+", lv, gen.Str("x"))), numStore, "upper", "named-args")
			default:
				k.judgeField(c, gen.Call("strlen", gen.Call("str", n1)), numStore, "strlen", "named-args")
			}
			c.Rec.Inc("named_args")
			if c.Case%3 == 0 {
				// wave 15 (C10-aa): a named LIST read three times by one field, the middle reader being a
				// function that may compute in place - what the third reader gets must still be the list
				p := gen.Ref("p", gen.Call("split", gen.Value(), gen.Str(",")))
				lists := []refstore.Pair{{K: "k1", V: "a,b"}, {K: "k2", V: "1,2,3"}, {K: "k3", V: "a,b,c"}, {K: "k4", V: "0.5,1.5"}, {K: "k5", V: "x,y,,z"}, {K: "k6", V: "q,r"}, {K: "k7", V: "7,8"}}
				k.judgeField(c, gen.Call("join", gen.Str(sep), gen.IndexI(p, 0), gen.Call("len", p), gen.IndexI(p, 1)), lists, "join", "named-list-read-three-times")
				k.judgeField(c, gen.Bin("+", gen.Bin("+", gen.IndexI(p, 1), gen.Call("str", gen.Call("len", p))), gen.IndexI(p, 0)), lists, "index", "named-list-read-three-times")
				c.Rec.Inc("named_list_read_three_times")
			}
		}
		k.judgeField(c, gen.Call("upper", gen.Bin("+", gen.Key(), gen.Str("xY"))), numStore, "upper", "rowdep")
		k.judgeField(c, gen.Call("lower", gen.Bin("+", gen.Str("Q"), gen.Key())), numStore, "lower", "rowdep")
	}
}

func c10Close(want refeval.Val, got string) bool {
	if want.K == refeval.VFloat && strings.HasPrefix(got, "F") {
		g, err := strconv.ParseFloat(got[1:], 64)
		if err != nil {
			return false
		}
		if want.F == g {
			return true
		}
		d := math.Abs(want.F - g)
		return d <= 1e-12*math.Max(math.Abs(want.F), math.Abs(g))
	}
	if want.K == refeval.VList && strings.HasPrefix(got, "L[") {
		// element-wise (floats with tolerance)
		inner := got[2 : len(got)-1]
		var parts []string
		if inner != "" {
			parts = splitTop(inner)
		}
		if len(parts) != len(want.L) {
			return false
		}
		for i, e := range want.L {
			if !c10Close(e, parts[i]) {
				return false
			}
		}
		return true
	}
	return want.Norm() == got
}

// splitTop splits a normalised list body at top-level commas.
func splitTop(s string) []string {
	var out []string
	depth, start, inStr := 0, 0, false
	for i := 0; i < len(s); i++ {
		ch := s[i]
		switch {
		case inStr:
			if ch == '\\' {
				i++
			} else if ch == '"' {
				inStr = false
			}
		case ch == '"':
			inStr = true
		case ch == '[' || ch == '{':
			depth++
		case ch == ']' || ch == '}':
			depth--
		case ch == ',' && depth == 0:
			out = append(out, s[start:i])
			start = i + 1
		}
	}
	return append(out, s[start:])
}

func (k c10) judgeField(c *rt.Ctx, expr *gen.Node, pairs []refstore.Pair, fn, cell string) {
	rec := c.Rec
	pairs = refstore.New(pairs).Pairs() // key order = row order
	// arguments given through select-field names: the defining fields come first, the judged
	// column is the last one (the reference evaluates the definitions in place)
	var defs []string
	seenRef := map[string]bool{}
	expr.Walk(func(x *gen.Node) {
		if x.K == gen.KRef && !seenRef[x.Op] {
			seenRef[x.Op] = true
			defs = append(defs, gen.Print(x.Def)+" as "+x.Op)
		}
	})
	col := 1 + len(defs)
	// the pair's own text after the judged column: a function returns a value, it does not change
	// what the next field reads (an in-place conversion inside the storage's slice would)
	q := "select key, " + strings.Join(append(defs, gen.Print(expr)), ", ") + ", value, strlen(value) where true"
	// reference per row
	type exp struct {
		v        refeval.Val
		ok       bool
		mustFail bool
	}
	exps := make([]exp, len(pairs))
	anyDefined, allDefined, mustFail := false, true, false
	for i, p := range pairs {
		env := &refeval.Env{Key: p.K, Value: p.V, FloatEq: true}
		v, ok := env.Eval(expr)
		exps[i] = exp{v: v, ok: ok}
		if ok {
			anyDefined = true
		} else {
			allDefined = false
			if env.DistanceMustFail(expr) {
				exps[i].mustFail = true
				mustFail = true
			}
		}
	}
	if expr.K == gen.KCall && expr.Op == "float" && len(expr.A) == 1 {
		for _, p := range pairs {
			if f, ok := refeval.PlainFloat(p.V); ok && float64(float32(f)) != f && expr.A[0].K == gen.KValue {
				rec.Inc("nondyadic_float_text")
			}
		}
		if expr.A[0].K == gen.KStr {
			if f, ok := refeval.PlainFloat(expr.A[0].S); ok && float64(float32(f)) != f {
				rec.Inc("nondyadic_float_text")
			}
		}
	}
	if !anyDefined && !mustFail {
		rec.NotJudged("argument outside what the documentation settles")
		return
	}
	for _, m := range []drive.Mode{{Batch: false, Size: 5, Cache: true}, {Batch: true, Size: []int{1, 3, 5, 32}[c.R.Intn(4)], Cache: true}} {
		o := drive.Run(q, refstore.New(pairs), m)
		rec.Eval(int64(len(pairs))) // one function evaluation per pair
		md := "row"
		if m.Batch {
			md = "batch"
		}
		c.Logf("query: %s  mode %s\n  outcome: %v", q, m, outcomeBrief(o))
		detail := func(extra rt.D) func() rt.D {
			return func() rt.D {
				d := rt.D{"query": q, "mode": m.String(), "store": storeBrief(pairs), "outcome": outcomeBrief(o)}
				for kk, v := range extra {
					d[kk] = v
				}
				return d
			}
		}
		cluster := fn + " / " + cell + "/" + md + " / " + gen.Shape(expr)
		if o.Status() == "panic" || o.Status() == "runaway" {
			c.Violation("crash", cluster+" "+o.Frame, detail(nil))
			return
		}
		if mustFail {
			rec.Inc("distance_must_fail")
			if o.Status() == "ok" {
				c.Violation("unequal-vector-lengths-accepted", cluster, detail(nil))
				return
			}
			continue
		}
		if o.Status() == "planerr" {
			// acceptance of well-typed text is C14's; here it would hide nothing: gated
			rec.Inc("rejected")
			rec.NotJudged("statement rejected at plan time")
			return
		}
		if o.Status() != "ok" {
			if allDefined {
				c.Violation("function-fails-on-documented-arguments", cluster, detail(nil))
				return
			}
			rec.NotJudged("statement fails and some row is outside the reference")
			continue
		}
		if len(o.Rows) != len(pairs) {
			c.Violation("row-count", cluster, detail(nil))
			return
		}
		rec.Inc("cell:" + fn + ":" + cell + "/" + md)
		for i := range pairs {
			if got, want := o.Rows[i][col+1], drive.Norm([]byte(pairs[i].V)); got != want {
				c.Violation("function-changed-the-pair-it-read", cluster, detail(rt.D{"pair": [2]string{pairs[i].K, pairs[i].V}, "value_read_by_the_next_field": got}))
				return
			}
		}
		for i := range pairs {
			if !exps[i].ok {
				continue
			}
			rec.Inc("values_compared")
			rec.DistinctS(q + "\x00" + pairs[i].V + md)
			if !c10Close(exps[i].v, o.Rows[i][col]) {
				c.Violation("value-differs-from-documentation", cluster, detail(rt.D{"pair": [2]string{pairs[i].K, pairs[i].V}, "expected": exps[i].v.Norm(), "observed": o.Rows[i][col]}))
				return
			}
		}
	}
	if c.Case%300 == 0 {
		rec.Sample(rt.D{"query": q, "pairs": len(pairs)})
	}
}

func (k c10) judgeWhere(c *rt.Ctx, pred *gen.Node, pairs []refstore.Pair, fn, cell string) {
	rec := c.Rec
	pairs = refstore.New(pairs).Pairs()
	q := "select key where " + gen.Print(pred)
	var want [][]string
	for _, p := range pairs {
		env := &refeval.Env{Key: p.K, Value: p.V, FloatEq: true}
		v, ok := env.Eval(pred)
		if !ok {
			rec.NotJudged("predicate outside what the documentation settles")
			return
		}
		if v.B {
			want = append(want, []string{drive.Norm([]byte(p.K))})
		}
	}
	for _, m := range []drive.Mode{{Batch: false, Size: 5, Cache: true}, {Batch: true, Size: 3, Cache: true}} {
		o := drive.Run(q, refstore.New(pairs), m)
		rec.Eval(1)
		md := "row"
		if m.Batch {
			md = "batch"
		}
		cluster := fn + " in WHERE / " + cell + "/" + md + " / " + gen.Shape(pred)
		if o.Status() != "ok" {
			c.Violation("function-fails-on-documented-arguments", cluster, func() rt.D { return rt.D{"query": q, "mode": m.String(), "outcome": outcomeBrief(o)} })
			return
		}
		rec.Inc("cell:" + fn + ":" + cell + "/" + md)
		rec.Inc("values_compared")
		if !drive.RowsEqual(o.Rows, want) {
			c.Violation("where-outcome-differs-from-documentation", cluster, func() rt.D {
				return rt.D{"query": q, "mode": m.String(), "expected": drive.Trunc(want, 12), "observed": drive.Trunc(o.Rows, 12)}
			})
			return
		}
	}
}
