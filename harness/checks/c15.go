package checks

import (
	"fmt"
	"strconv"
	"strings"

	kvql "github.com/c4pt0r/kvql"

	"kvqlverif/drive"
	"kvqlverif/gen"
	"kvqlverif/refstore"
	"kvqlverif/rt"
)

// C15 — parsing follows the documented precedence; the printed form re-parses
// identically. The generator owns the tree; the AST from Parser.Parse is
// compared structurally with it, then the statement is rebuilt from the
// String() of its expressions and re-parsed (fixpoint).

type c15 struct{ rt.Base }

func init() { rt.Register(&c15{}) }

func (c15) ID() string { return "C15" }

// ---- canonical structural form shared by both sides

func canonGen(n *gen.Node) string {
	switch n.K {
	case gen.KKey:
		return "key"
	case gen.KValue:
		return "value"
	case gen.KStr:
		return "s:" + strconv.Quote(n.S)
	case gen.KInt:
		return "i:" + strconv.FormatInt(n.I, 10)
	case gen.KFloat:
		return "f:" + strconv.FormatFloat(n.F, 'g', -1, 64)
	case gen.KBool:
		return "b:" + strconv.FormatBool(n.B)
	case gen.KBin:
		return "(" + n.Op + " " + canonGen(n.A[0]) + " " + canonGen(n.A[1]) + ")"
	case gen.KNot:
		return "(not " + canonGen(n.A[0]) + ")"
	case gen.KCall:
		parts := make([]string, len(n.A))
		for i, a := range n.A {
			parts[i] = canonGen(a)
		}
		return "(call " + n.Op + " " + strings.Join(parts, " ") + ")"
	case gen.KIn:
		if n.InExpr {
			return "(in " + canonGen(n.A[0]) + " " + canonGen(n.A[1]) + ")"
		}
		parts := make([]string, len(n.A)-1)
		for i, a := range n.A[1:] {
			parts[i] = canonGen(a)
		}
		return "(in " + canonGen(n.A[0]) + " [" + strings.Join(parts, " ") + "])"
	case gen.KBetween:
		return "(between " + canonGen(n.A[0]) + " [" + canonGen(n.A[1]) + " " + canonGen(n.A[2]) + "])"
	case gen.KIndex:
		if n.IdxStr {
			return "(idx " + canonGen(n.A[0]) + " s:" + strconv.Quote(n.S) + ")"
		}
		return "(idx " + canonGen(n.A[0]) + " i:" + strconv.FormatInt(n.I, 10) + ")"
	case gen.KRef:
		return "ref:" + strings.ToLower(n.Op)
	}
	return "?"
}

var c15OpNames = map[kvql.Operator]string{
	kvql.And: "and", kvql.KWAnd: "and", kvql.Or: "or", kvql.KWOr: "or", kvql.Eq: "=", kvql.NotEq: "!=", kvql.PrefixMatch: "^=", kvql.RegExpMatch: "~=",
	kvql.Add: "+", kvql.Sub: "-", kvql.Mul: "*", kvql.Div: "/", kvql.Gt: ">", kvql.Gte: ">=", kvql.Lt: "<", kvql.Lte: "<=", kvql.In: "in", kvql.Between: "between",
}

func canonAST(e kvql.Expression) string {
	switch x := e.(type) {
	case *kvql.FieldExpr:
		if x.Field == kvql.KeyKW {
			return "key"
		}
		return "value"
	case *kvql.StringExpr:
		return "s:" + strconv.Quote(x.Data)
	case *kvql.NumberExpr:
		return "i:" + strconv.FormatInt(x.Int, 10)
	case *kvql.FloatExpr:
		return "f:" + strconv.FormatFloat(x.Float, 'g', -1, 64)
	case *kvql.BoolExpr:
		return "b:" + strconv.FormatBool(x.Bool)
	case *kvql.NotExpr:
		return "(not " + canonAST(x.Right) + ")"
	case *kvql.NameExpr:
		return "name:" + strings.ToLower(x.Data)
	case *kvql.FieldReferenceExpr:
		return "ref:" + strings.ToLower(x.Name.Data)
	case *kvql.FunctionCallExpr:
		parts := make([]string, len(x.Args))
		for i, a := range x.Args {
			parts[i] = canonAST(a)
		}
		name := "?"
		if ne, ok := x.Name.(*kvql.NameExpr); ok {
			name = strings.ToLower(ne.Data)
		}
		return "(call " + name + " " + strings.Join(parts, " ") + ")"
	case *kvql.ListExpr:
		parts := make([]string, len(x.List))
		for i, a := range x.List {
			parts[i] = canonAST(a)
		}
		return "[" + strings.Join(parts, " ") + "]"
	case *kvql.FieldAccessExpr:
		return "(idx " + canonAST(x.Left) + " " + canonAST(x.FieldName) + ")"
	case *kvql.BinaryOpExpr:
		return "(" + c15OpNames[x.Op] + " " + canonAST(x.Left) + " " + canonAST(x.Right) + ")"
	}
	return fmt.Sprintf("?%T", e)
}

// ---- flat operator sequences and the reference precedence climber

type c15Tok struct {
	op string // binary operator spelling, or "" for an operand placeholder
}

var c15BinOps = []string{"|", "or", "&", "and", "=", "!=", "^=", "~=", ">", ">=", "<", "<=", "in", "between", "+", "-", "*", "/"}

func c15Prec(op string) int {
	switch op {
	case "|", "or":
		return 1
	case "&", "and":
		return 2
	case "+", "-":
		return 4
	case "*", "/":
		return 5
	}
	return 3
}

func c15Canon(op string) string {
	switch op {
	case "|":
		return "or"
	case "&":
		return "and"
	}
	return op
}

// shape tree built by the reference climber: leaves are numbered placeholders
type c15Shape struct {
	op   string
	l, r *c15Shape
	leaf int
}

func c15Climb(ops []string) *c15Shape {
	pos := 0
	nleaf := 0
	var parse func(minPrec int) *c15Shape
	parse = func(minPrec int) *c15Shape {
		left := &c15Shape{leaf: nleaf}
		nleaf++
		for pos < len(ops) && c15Prec(ops[pos]) >= minPrec {
			op := ops[pos]
			pos++
			var right *c15Shape
			if op == "in" || op == "between" {
				right = &c15Shape{leaf: nleaf} // atomic special right-hand side
				nleaf++
			} else {
				right = parse(c15Prec(op) + 1)
			}
			left = &c15Shape{op: op, l: left, r: right, leaf: -1}
		}
		return left
	}
	return parse(1)
}

// c15Type assigns types top-down and builds the gen tree; ok=false if the
// shape cannot be well-typed.
func c15Build(sh *c15Shape, want gen.T, r *rt.Rand) (*gen.Node, bool) {
	if sh.leaf >= 0 {
		return c15Leaf(want, r), true
	}
	op := sh.op
	cop := c15Canon(op)
	mk := func(l, rr *gen.Node) *gen.Node {
		n := gen.Bin(cop, l, rr)
		n.Sym = op == "&" || op == "|"
		return n
	}
	switch cop {
	case "or", "and":
		if want != gen.TB {
			return nil, false
		}
		l, ok1 := c15Build(sh.l, gen.TB, r)
		rr, ok2 := c15Build(sh.r, gen.TB, r)
		if !ok1 || !ok2 {
			return nil, false
		}
		return mk(l, rr), true
	case "+", "-", "*", "/":
		if want == gen.TS && cop == "+" {
			l, ok1 := c15Build(sh.l, gen.TS, r)
			rr, ok2 := c15Build(sh.r, gen.TS, r)
			if ok1 && ok2 {
				return mk(l, rr), true
			}
			return nil, false
		}
		if want != gen.TN {
			return nil, false
		}
		l, ok1 := c15Build(sh.l, gen.TN, r)
		rr, ok2 := c15Build(sh.r, gen.TN, r)
		if !ok1 || !ok2 {
			return nil, false
		}
		if cop == "/" && ((rr.K == gen.KInt && rr.I == 0) || (rr.K == gen.KFloat && rr.F == 0)) {
			rr = gen.Int(2)
		}
		return mk(l, rr), true
	case "in":
		if want != gen.TB {
			return nil, false
		}
		for _, t := range []gen.T{gen.TS, gen.TN} {
			if l, ok := c15Build(sh.l, t, r); ok {
				items := []*gen.Node{c15Lit(t, r), c15Lit(t, r)}
				return gen.In(l, items...), true
			}
		}
		return nil, false
	case "between":
		if want != gen.TB {
			return nil, false
		}
		if l, ok := c15Build(sh.l, gen.TN, r); ok {
			return gen.Between(l, gen.Int(1), gen.Int(9)), true
		}
		if l, ok := c15Build(sh.l, gen.TS, r); ok {
			return gen.Between(l, gen.Str("a"), gen.Str("k")), true
		}
		return nil, false
	}
	// comparisons
	if want != gen.TB {
		return nil, false
	}
	types := []gen.T{gen.TS, gen.TN, gen.TB}
	switch cop {
	case "^=", "~=":
		types = []gen.T{gen.TS}
	case ">", ">=", "<", "<=":
		types = []gen.T{gen.TS, gen.TN}
	}
	if r.Bool() && len(types) > 1 {
		types[0], types[1] = types[1], types[0]
	}
	for _, t := range types {
		l, ok1 := c15Build(sh.l, t, r)
		rr, ok2 := c15Build(sh.r, t, r)
		if ok1 && ok2 {
			if cop == "~=" && rr.K != gen.KStr {
				continue
			}
			if (l.K == gen.KKey && rr.K == gen.KKey) || (l.K == gen.KValue && rr.K == gen.KValue) {
				rr = gen.Str("x")
			}
			return mk(l, rr), true
		}
	}
	return nil, false
}

func c15Lit(t gen.T, r *rt.Rand) *gen.Node {
	switch t {
	case gen.TS:
		// also literals with bytes a printer might want to escape (the language has no escapes)
		return gen.Str([]string{"a", "b", "k1", "", "x y", "a\\b", "^k\\d+$", "t\tab", "caf\xc3\xa9", "\xff\xfe", "say \"hi\"", "100%", "\\", "k1!", "a<", "b>", "c^", "d~", "=", "!", "a;b", "c;", ";", "p,q;", "x and y", "(", "a) or (b"}[r.Intn(27)])
	case gen.TN:
		if r.Chance(1, 4) {
			return gen.Float([]string{"0.5", "1.5", "2.0"}[r.Intn(3)])
		}
		if r.Chance(1, 8) {
			return gen.Int([]int64{9007199254740993, 9223372036854775807, 4611686018427387905, 9007199254740992}[r.Intn(4)])
		}
		return gen.Int(int64(r.Range(0, 9)))
	}
	return gen.Bool(r.Bool())
}

func c15Leaf(t gen.T, r *rt.Rand) *gen.Node {
	switch t {
	case gen.TS:
		switch r.Intn(6) {
		case 0:
			return gen.Key()
		case 1:
			return gen.Value()
		case 2:
			return gen.Call("upper", gen.Key())
		case 3:
			return gen.IndexI(gen.Call("split", gen.Value(), gen.Str(",")), int64(r.Intn(3)))
		case 4:
			return gen.IndexS(gen.Call("json", gen.Value()), "x")
		}
		return c15Lit(t, r)
	case gen.TN:
		switch r.Intn(5) {
		case 0:
			return gen.Call("int", gen.Value())
		case 1:
			return gen.Call("strlen", gen.Key())
		case 2:
			return gen.Call("len", gen.Call("split", gen.Value(), gen.Str(",")))
		}
		return c15Lit(t, r)
	}
	// Boolean operand: a call, a negation, or a literal in comparison position
	switch r.Intn(5) {
	case 0:
		return gen.Call("is_int", gen.Value())
	case 1:
		return gen.Not(gen.Call("is_float", gen.Key()))
	case 2:
		return gen.Call("is_float", gen.Value())
	case 3:
		return gen.Not(gen.Not(gen.Call("is_int", gen.Key())))
	}
	return gen.Call("is_int", gen.Key())
}

func c15SeqCount(maxLen int) int {
	n, p := 0, 1
	for l := 1; l <= maxLen; l++ {
		p *= len(c15BinOps)
		n += p
	}
	return n
}

const c15Block = 40

func (c15) NumCases(tier string) int {
	if tier == "thorough" {
		return c15SeqCount(4)/c15Block + 1 + 150000/c15Block
	}
	return c15SeqCount(3)/c15Block + 1 + 20000/c15Block + 20000/c15Block
}

func (c15) Exhaustive(tier string) bool { return true }

func (c15) Rule() string {
	return fmt.Sprintf("exhaustive: every flat (unparenthesised) sequence of up to 3 (quick) / 4 (thorough) binary operators over the %d operator spellings (| or & and = != ^= ~= > >= < <= in between + - * /) with typed operands chosen so that the tree implied by the documented precedence is well-typed (untypable sequences are tallied); sampled: random trees to depth 6 with calls, indexing, IN, BETWEEN, !, printed with minimal / random / full parenthesisation and random letter case, in every expression slot (select fields, WHERE, PUT pairs, REMOVE keys, DELETE). Each compared structurally with Parser.Parse's AST and with the re-parse of the canonical rendering. Non-trivial: at least two operators; distinct by printed text.", len(c15BinOps))
}

func (c15) Assumptions() []string {
	return []string{"documented table: or/| < and/& < comparisons, IN, BETWEEN < + - < * / < ! < call/index, left-associative", "literals contain no quote characters (the language has no escape syntax)", "structural comparison ignores positions and the spelling of and/or (& vs and)"}
}

func (c15) Gates(tier string, m map[string]int64) []rt.Gate {
	return []rt.Gate{
		rt.GateMin("operators written directly after a closing quote", m, "operator_directly_after_a_closing_quote", 200),
		rt.GateMin("BETWEEN with arithmetic trees as bounds", m, "between_with_arithmetic_bounds", 200),
		rt.GateMin("filters naming a backquoted select field (printed form re-parsed under the same field list)", m, "named_field_filters", 200),
		rt.GateMin("filters shown by Explain() run as statements of their own", m, "shown_filters", 200),
		rt.GateMin("statement twins differing only in the letter case inside literals", m, "case_twins_compared", 100),
		rt.GateMin("flat sequences compared", m, "flat_compared", 1000),
		rt.GateMin("random trees compared", m, "tree_compared", 1000),
		rt.GateMin("re-parse fixpoints checked", m, "fixpoints", 2000),
		rt.GateMin("minimal-parenthesis renderings", m, "style:1", 500), rt.GateMin("full-parenthesis renderings", m, "style:2", 500), rt.GateMin("random-parenthesis renderings", m, "style:3", 500),
		rt.GateMin("PUT / REMOVE / DELETE slots", m, "slot:write", 200),
	}
}

func (k c15) Run(c *rt.Ctx) {
	maxLen := 3
	if c.Thorough() {
		maxLen = 4
	}
	nseq := c15SeqCount(maxLen)
	idx := c.Case * c15Block
	if idx < nseq {
		for i := idx; i < idx+c15Block && i < nseq; i++ {
			k.flat(c, i)
		}
		return
	}
	if !c.Thorough() && idx < nseq+c15Block+20000 {
		// quick: a sample of the length-4 sequences
		for i := 0; i < c15Block; i++ {
			ops := make([]string, 4)
			for j := range ops {
				ops[j] = c15BinOps[c.R.Intn(len(c15BinOps))]
			}
			k.flatOps(c, ops)
		}
		return
	}
	for i := 0; i < c15Block; i++ {
		switch c.R.Intn(6) {
		case 0:
			k.betweenBounds(c)
			if i%2 == 0 {
				k.betweenBare(c)
			} else {
				k.indexExpressions(c)
			}
		case 1:
			k.namedFieldFixpoint(c)
		case 2:
			k.tightAfterLiteral(c)
		case 3:
			k.shownFilter(c)
			if i%3 == 0 {
				k.shownFolded(c)
			}
			if i%3 == 1 {
				k.shownNegation(c)
			}
		default:
			k.randomTree(c)
		}
	}
}

// betweenBounds: BETWEEN whose bounds are arithmetic trees of every shape,
// printed with minimal parentheses (a bound may begin with a parenthesis and go on).
func (k c15) betweenBounds(c *rt.Ctx) {
	r := c.R
	var arith func(d int) *gen.Node
	arith = func(d int) *gen.Node {
		if d == 0 || r.Chance(1, 4) {
			return gen.Int(int64(r.Range(1, 9)))
		}
		return gen.Bin([]string{"+", "-", "*", "/"}[r.Intn(4)], arith(d-1), arith(d-1))
	}
	var left *gen.Node
	switch r.Intn(3) {
	case 0:
		left = gen.Call("int", gen.Value())
	case 1:
		left = gen.Call("strlen", gen.Key())
	default:
		left = gen.Bin("+", gen.Call("int", gen.Value()), gen.Int(1))
	}
	tree := gen.Between(left, arith(r.Range(1, 3)), arith(r.Range(1, 3)))
	if r.Chance(1, 4) {
		// a text BETWEEN whose bounds hold a call with the keywords and / or inside its argument:
		// the AND of BETWEEN belongs to the outermost level only
		inner := gen.And(gen.Bin("=", gen.Value(), gen.Str("v1")), gen.Bin("=", gen.Key(), gen.Str("k1")))
		inner.Sym = false
		lowB := gen.Call("str", inner)
		var upB *gen.Node = gen.Str("z")
		if r.Bool() {
			in2 := gen.Or(gen.Bin("^=", gen.Key(), gen.Str("k")), gen.Bin("=", gen.Value(), gen.Str("x")))
			in2.Sym = false
			upB = gen.Call("upper", gen.Call("str", in2))
		}
		tree = gen.Between(gen.Key(), lowB, upB)
		c.Rec.Inc("between_bounds_with_keyword_operators_inside_calls")
	}
	if r.Chance(1, 3) {
		tree = gen.And(tree, gen.Bin("^=", gen.Key(), gen.Str("k")))
	}
	if r.Chance(1, 4) {
		tree = gen.Not(tree)
	}
	style := gen.Style{Paren: 1, R: r.Fork(), Case: r.Chance(1, 2), Tight: r.Chance(1, 4)}
	c.Rec.Inc("between_with_arithmetic_bounds")
	c.Rec.Inc("tree_compared")
	k.compare(c, tree, style.Print(tree), "tree")
	if r.Chance(1, 4) {
		// the same statement text up to the letter case INSIDE its literals, parsed right after:
		// each tree carries its own statement's literals
		twin := tree.Clone()
		changed := false
		twin.Walk(func(n *gen.Node) {
			if n.K == gen.KStr && n.S != "" {
				if sw := c15SwapCase(n.S); sw != n.S {
					n.S = sw
					changed = true
				}
			}
		})
		if changed {
			c.Rec.Inc("case_twins_compared")
			fixed := gen.Style{Paren: 2}
			k.compare(c, tree, fixed.Print(tree), "tree")
			k.compare(c, twin, fixed.Print(twin), "tree / twin differing in the letter case inside literals")
		}
	}
}

// betweenBare: sums and products as BETWEEN bounds written without parentheses - the bound
// extends over the arithmetic and ends at the first Boolean operator.
func (k c15) betweenBare(c *rt.Ctx) {
	r := c.R
	n := func() *gen.Node { return gen.Int(int64(r.Range(1, 9))) }
	iv := gen.Call("int", gen.Value())
	var tree *gen.Node
	var text string
	a, b, d, e := n(), n(), n(), n()
	p := gen.Print
	switch r.Intn(5) {
	case 0:
		op := []string{"+", "-"}[r.Intn(2)]
		tree = gen.Between(iv, a, gen.Bin(op, b, d))
		text = "int(value) between " + p(a) + " and " + p(b) + " " + op + " " + p(d)
	case 1:
		tree = gen.And(gen.Between(iv, a, gen.Bin("+", gen.Bin("*", b, d), e)), gen.Bin("^=", gen.Key(), gen.Str("k")))
		text = "int(value) between " + p(a) + " and " + p(b) + " * " + p(d) + " + " + p(e) + " & key ^= 'k'"
	case 2:
		tree = gen.Between(gen.Call("strlen", gen.Key()), gen.Bin("+", a, b), gen.Bin("-", d, e))
		text = "strlen(key) between " + p(a) + " + " + p(b) + " and " + p(d) + " - " + p(e)
	case 3:
		tree = gen.Or(gen.Between(gen.Key(), gen.Str("a"), gen.Bin("+", gen.Str("b"), gen.Str("c"))), gen.Bin("=", gen.Value(), gen.Str("x")))
		tree.Sym = false
		text = "key between 'a' and 'b' + 'c' or value = 'x'"
	default:
		tree = gen.And(gen.Bin("^=", gen.Key(), gen.Str("k")), gen.Between(iv, gen.Bin("*", a, b), gen.Bin("+", d, gen.Bin("*", e, a))))
		text = "key ^= 'k' & int(value) between " + p(a) + " * " + p(b) + " and " + p(d) + " + " + p(e) + " * " + p(a)
	}
	c.Rec.Inc("between_bounds_without_parentheses")
	c.Rec.Inc("tree_compared")
	k.compare(c, tree, text, "tree")
}

func c15SwapCase(s string) string {
	b := []byte(s)
	for i, ch := range b {
		switch {
		case ch >= 'a' && ch <= 'z':
			b[i] = ch - 32
		case ch >= 'A' && ch <= 'Z':
			b[i] = ch + 32
		}
	}
	return string(b)
}

// tightAfterLiteral: an operator written directly after a closing quote, the literal ending
// in a character that could start a two-character operator (the quote separates them).
func (k c15) tightAfterLiteral(c *rt.Ctx) {
	r := c.R
	lit := []string{"k1!", "a<", "b>", "c^", "d~", "!", "<", "x=", "="}[r.Intn(9)]
	var other *gen.Node
	switch r.Intn(3) {
	case 0:
		other = gen.Key()
	case 1:
		other = gen.Bin("+", gen.Key(), gen.Str(lit))
	default:
		other = gen.Call("upper", gen.Value())
	}
	op := []string{"=", "=", "!=", "^=", "~=", ">=", "<=", ">", "<"}[r.Intn(9)]
	var left *gen.Node = gen.Str(lit)
	if r.Bool() {
		left = gen.Bin("+", gen.Key(), gen.Str(lit))
	}
	tree := gen.Bin(op, left, other)
	if r.Chance(1, 3) {
		tree = gen.And(tree, gen.Bin("=", gen.Str(lit), gen.Value()))
	}
	style := gen.Style{Paren: 1, R: r.Fork(), Tight: true}
	c.Rec.Inc("operator_directly_after_a_closing_quote")
	c.Rec.Inc("tree_compared")
	k.compare(c, tree, style.Print(tree), "tree")
}

// namedFieldFixpoint: the printed form of a filter that uses a select-field
// name - also names that look like words of the language - re-parses, under
// the same field list, to the same tree and prints the same again.
func (k c15) namedFieldFixpoint(c *rt.Ctx) {
	r := c.R
	rec := c.Rec
	name := []string{"value", "key", "limit", "order", "in", "and", "true", "inf", "nan", "select", "where", "as", "x-y", "a b", "uv", "F1", "between", "group", "1a"}[r.Intn(19)]
	head := "select key, upper(value) as `" + name + "`, strlen(key) as n9 where "
	ref := "`" + name + "`"
	filter := []string{ref + " = 'A' & key ^= 'k'", "key ^= 'k' and " + ref + " in ('K1', 'K3')", "!(" + ref + " ^= 'a') | n9 > 2", "lower(" + ref + ") + 'x' != " + ref, ref + " between 'a' and 'b' or n9 * 2 >= strlen(" + ref + ")"}[r.Intn(5)]
	parse := func(q string) (kvql.Expression, string) {
		var e kvql.Expression
		errs := ""
		func() {
			defer func() {
				if p := recover(); p != nil {
					errs = fmt.Sprint("panic: ", p)
				}
			}()
			stmt, err := kvql.NewParser(q).Parse()
			if err != nil {
				errs = err.Error()
				return
			}
			e = stmt.(*kvql.SelectStmt).Where.Expr
		}()
		return e, errs
	}
	q := head + filter
	rec.Eval(1)
	rec.Inc("named_field_filters")
	rec.DistinctS(q)
	e1, err1 := parse(q)
	if err1 != "" {
		if strings.HasPrefix(err1, "panic") {
			c.Violation("parser-panics", "named field", func() rt.D { return rt.D{"query": q, "panic": err1} })
			return
		}
		rec.NotJudged("statement with a backquoted field name is refused: " + firstWords(stripPos(err1)))
		return
	}
	canon := e1.String()
	q2 := head + canon
	e2, err2 := parse(q2)
	rec.Eval(1)
	rec.Inc("fixpoints")
	cl := "named field / " + map[bool]string{true: "name like a word of the language", false: "other name"}[strings.IndexAny(name, "- ") < 0 && name != "uv" && name != "F1" && name != "1a"]
	if err2 != "" {
		c.Violation("canonical-form-does-not-reparse", cl+" / "+firstWords(stripPos(err2)), func() rt.D { return rt.D{"query": q, "canonical": canon, "reparse_query": q2, "error": err2} })
		return
	}
	if a, b := canonAST(e1), canonAST(e2); a != b {
		c.Violation("canonical-form-reparses-differently", cl+" / "+c15FirstDiff(a, b), func() rt.D { return rt.D{"query": q, "canonical": canon, "tree": a, "reparsed_tree": b} })
		return
	}
	if e2.String() != canon {
		c.Violation("canonical-form-not-a-fixpoint", cl, func() rt.D { return rt.D{"query": q, "canonical": canon, "second_rendering": e2.String()} })
	}
}

// shownFilter: "the filter shown by EXPLAIN is the filter executed". The statement is planned
// (constants are folded on the way), the filter text shown by the scan line of Explain() is put
// into a second statement, and both must select the same rows; the second statement's own shown
// filter must be the same text. Constants are positive, so that the shown literals are spellings
// the language has (there is no unary minus: register B20).
func (k c15) shownFilter(c *rt.Ctx) {
	r := c.R
	rec := c.Rec
	odd := func() *gen.Node { return gen.Int(int64(2*r.Intn(5) + 1)) }
	half := func() *gen.Node { return gen.Float([]string{"0.5", "1.5", "2.5", "3.5"}[r.Intn(4)]) }
	konst := func() *gen.Node {
		switch r.Intn(9) {
		case 6: // a whole float: shown with a spelling that is still a float literal
			return gen.Bin("+", half(), half())
		case 7:
			return gen.Bin("*", gen.Int(int64(2*r.Range(1, 4))), half())
		case 8:
			if r.Bool() { // a magnitude below 1e-4: no exponent in the shown literal
				return gen.Bin("*", gen.Float([]string{"0.00001", "0.0005", "0.000125"}[r.Intn(3)]), gen.Float([]string{"0.5", "0.25"}[r.Intn(2)]))
			}
			return gen.Bin("*", gen.Float("2.0"), gen.Float([]string{"1.0", "3.0", "4.0"}[r.Intn(3)]))
		case 0:
			return gen.Bin("+", odd(), half())
		case 1:
			return gen.Bin("+", half(), odd())
		case 2:
			return gen.Bin("*", odd(), half())
		case 3:
			return gen.Bin("+", gen.Bin("+", odd(), half()), gen.Int(int64(r.Range(1, 4))))
		case 4:
			return gen.Bin("+", gen.Int(int64(r.Range(1, 9))), gen.Int(int64(r.Range(1, 9))))
		}
		return gen.Bin("*", half(), odd())
	}
	atom := func() *gen.Node {
		left := []*gen.Node{gen.Call("int", gen.Value()), gen.Call("strlen", gen.Key()), gen.Call("float", gen.Value()), gen.Bin("*", gen.Call("int", gen.Value()), gen.Int(2))}[r.Intn(4)]
		op := []string{">", ">=", "<", "<="}[r.Intn(4)]
		if r.Chance(1, 4) {
			return gen.Bin(op, konst(), left)
		}
		if r.Chance(1, 4) {
			return gen.Bin(op, gen.Bin("+", left, konst()), konst())
		}
		if r.Chance(1, 3) {
			// integer or float division, depending on the kind of the folded constant
			return gen.Bin(op, gen.Bin("/", left, konst()), konst())
		}
		return gen.Bin(op, left, konst())
	}
	tree := atom()
	switch r.Intn(4) {
	case 0:
		tree = gen.And(tree, atom())
	case 1:
		tree = gen.Or(tree, gen.Bin("!=", gen.Value(), gen.Str("zz")))
	case 2:
		tree = gen.Or(gen.Not(tree), atom())
	}
	if r.Chance(1, 3) {
		// a constant operand of the outermost & or | (either side): it is simplified away, a
		// Boolean literal left standing there would be a filter the language does not accept
		rec.Inc("shown_filter_constant_conjunct")
		yes := []*gen.Node{gen.Bin("=", gen.Int(1), gen.Int(1)), gen.Bin(">", gen.Int(2), gen.Int(1)), gen.Bin("=", gen.Bin("+", gen.Str("a"), gen.Str("b")), gen.Str("ab")), gen.Call("is_int", gen.Str("12"))}[r.Intn(4)]
		no := []*gen.Node{gen.Bin("<", gen.Int(2), gen.Int(1)), gen.Bin("=", gen.Str("a"), gen.Str("b")), gen.Call("is_int", gen.Str("x"))}[r.Intn(3)]
		switch r.Intn(4) {
		case 0:
			tree = gen.And(yes, tree)
		case 1:
			tree = gen.And(tree, yes)
		case 2:
			tree = gen.Or(no, tree)
		default:
			tree = gen.Or(tree, no)
		}
		if r.Chance(1, 3) {
			tree.Sym = false // spelled and / or: not simplified away, the literal must then be a text the parser takes
		}
	}
	var pairs []refstore.Pair
	for i := 0; i < 12; i++ {
		pairs = append(pairs, refstore.Pair{K: fmt.Sprintf("k%02d%s", i, strings.Repeat("x", i%4)), V: fmt.Sprint(i)})
	}
	mode := drive.Mode{Batch: r.Bool(), Size: 3, Cache: true}
	q1 := "select key, value where " + gen.Print(tree)
	o1 := drive.Run(q1, refstore.New(pairs), mode)
	rec.Eval(1)
	rec.DistinctS(q1)
	if o1.Status() != "ok" {
		rec.NotJudged("statement for the shown-filter comparison did not run: " + firstWords(stripPos(o1.ErrText())))
		return
	}
	shown := ""
	if len(o1.Explain) > 0 {
		last := o1.Explain[len(o1.Explain)-1]
		if i := strings.Index(last, "FullScanPlan{Filter = '"); i >= 0 && strings.HasSuffix(last, "'}") {
			shown = last[i+len("FullScanPlan{Filter = '") : len(last)-2]
		}
	}
	if shown == "" {
		rec.NotJudged("no full-scan line with a filter in Explain()")
		return
	}
	rec.Inc("shown_filters")
	q2 := "select key, value where " + shown
	o2 := drive.Run(q2, refstore.New(pairs), mode)
	rec.Eval(1)
	det := func() rt.D {
		return rt.D{"query": q1, "explain": o1.Explain, "shown_filter": shown, "second_query": q2, "rows": fmt.Sprint(o1.Rows), "rows_of_shown_filter": fmt.Sprint(o2.Rows), "second_outcome": outcomeBrief(o2)}
	}
	if o2.Status() != "ok" {
		c.Violation("shown-filter-does-not-run", firstWords(stripPos(o2.ErrText())), det)
		return
	}
	if fmt.Sprint(o1.Rows) != fmt.Sprint(o2.Rows) {
		c.Violation("shown-filter-is-not-the-executed-filter", "rows differ", det)
		return
	}
	if len(o2.Explain) > 0 {
		last := o2.Explain[len(o2.Explain)-1]
		if !strings.Contains(last, "Filter = '"+shown+"'}") {
			c.Violation("shown-filter-not-a-fixpoint", "second rendering differs", det)
		}
	}
}

// shownFolded: folded float constants that need all their digits, over stored values lying
// between the constant and its shorter spellings: the shown filter selects the same rows.
func (k c15) shownFolded(c *rt.Ctx) {
	r := c.R
	rec := c.Rec
	pairs := []refstore.Pair{{K: "a", V: "0.3"}, {K: "b", V: "0.30000000000000004"}, {K: "c", V: "0.1"}, {K: "d", V: "0.33333334"}, {K: "e", V: "0.3333333333333333"},
		{K: "f", V: "16777217"}, {K: "g", V: "16777216"}, {K: "h", V: "0.30000001192092896"}, {K: "i", V: "0.6000000000000001"}, {K: "j", V: "0.6"}}
	konst := []string{"0.1 + 0.2", "1 / 3.0", "16777217 * 1.0", "0.2 + 0.1", "0.3 + 0.3 + 0.0000000000000001", "float('0.1') * 3", "0.1 * 3"}[r.Intn(7)]
	op := []string{">=", ">", "<", "<=", "="}[r.Intn(5)]
	w := "float(value) " + op + " " + konst
	if r.Chance(1, 3) {
		w = konst + " " + op + " float(value)"
	}
	if r.Chance(1, 3) {
		w += " & key != 'zz'"
	}
	mode := drive.Mode{Batch: r.Bool(), Size: 3, Cache: true}
	q1 := "select key, value where " + w
	o1 := drive.Run(q1, refstore.New(pairs), mode)
	rec.Eval(1)
	if o1.Status() != "ok" {
		rec.NotJudged("statement for the shown-filter comparison did not run: " + firstWords(stripPos(o1.ErrText())))
		return
	}
	shown := ""
	if len(o1.Explain) > 0 {
		last := o1.Explain[len(o1.Explain)-1]
		if i := strings.Index(last, "FullScanPlan{Filter = '"); i >= 0 && strings.HasSuffix(last, "'}") {
			shown = last[i+len("FullScanPlan{Filter = '") : len(last)-2]
		}
	}
	if shown == "" {
		rec.NotJudged("no full-scan line with a filter in Explain()")
		return
	}
	rec.Inc("shown_filters_with_long_folded_floats")
	q2 := "select key, value where " + shown
	o2 := drive.Run(q2, refstore.New(pairs), mode)
	rec.Eval(1)
	det := func() rt.D {
		return rt.D{"query": q1, "explain": o1.Explain, "shown_filter": shown, "second_query": q2, "rows": fmt.Sprint(o1.Rows), "rows_of_shown_filter": fmt.Sprint(o2.Rows), "second_outcome": outcomeBrief(o2)}
	}
	if o2.Status() != "ok" {
		c.Violation("shown-filter-does-not-run", firstWords(stripPos(o2.ErrText())), det)
		return
	}
	if fmt.Sprint(o1.Rows) != fmt.Sprint(o2.Rows) {
		c.Violation("shown-filter-is-not-the-executed-filter", "rows differ (folded float)", det)
	}
}

// indexExpressions: an expression as the index of a cascaded member access, written without
// parentheses around it: the same tree as with them.
func (k c15) indexExpressions(c *rt.Ctx) {
	r := c.R
	pairs := [][2]string{
		{"json(value)['a']['b' + 'c'] = 'hit'", "json(value)['a'][('b' + 'c')] = 'hit'"},
		{"json(value)['o'][lower('Y') + 'z'] != ''", "json(value)['o'][(lower('Y') + 'z')] != ''"},
		{"json(value)['a']['b' + 'c']['d'] = 'x'", "json(value)['a'][('b' + 'c')]['d'] = 'x'"},
		{"key ^= 'k' & json(value)['o']['y' + ''] = 'q'", "(key ^= 'k') & (json(value)['o'][('y' + '')] = 'q')"},
		{"upper(json(value)['a']['x' + 'y' + 'z']) = 'V'", "upper(json(value)['a'][(('x' + 'y') + 'z')]) = 'V'"},
	}
	pr := pairs[r.Intn(len(pairs))]
	c.Rec.Inc("index_expressions_without_parentheses")
	parse := func(w string) (string, string) {
		var canon, errs string
		func() {
			defer func() {
				if x := recover(); x != nil {
					errs = fmt.Sprint("panic: ", x)
				}
			}()
			stmt, err := kvql.NewParser("select * where " + w).Parse()
			if err != nil {
				errs = err.Error()
				return
			}
			canon = canonAST(stmt.(*kvql.SelectStmt).Where.Expr)
		}()
		return canon, errs
	}
	bare, e1 := parse(pr[0])
	full, e2 := parse(pr[1])
	c.Rec.Eval(2)
	if e2 != "" {
		c.Rec.NotJudged("fully parenthesised index expression is refused: " + firstWords(stripPos(e2)))
		return
	}
	if e1 != "" {
		c.Violation("well-typed-expression-rejected", "index expression without parentheses / "+firstWords(stripPos(e1)), func() rt.D {
			return rt.D{"query": "select * where " + pr[0], "error": e1, "accepted_with_parentheses": pr[1]}
		})
		return
	}
	if bare != full {
		c.Violation("tree-differs-from-documented-precedence", "index expression without parentheses / "+c15FirstDiff(full, bare), func() rt.D {
			return rt.D{"query": "select * where " + pr[0], "parsed_tree": bare, "tree_with_parentheses": full}
		})
	}
}

// shownNegation: a constant under ! as the whole filter: what is shown is what runs.
func (k c15) shownNegation(c *rt.Ctx) {
	r := c.R
	rec := c.Rec
	pairs := []refstore.Pair{{K: "k1", V: "1"}, {K: "k2", V: "2"}, {K: "k3", V: "3"}}
	w := []string{"!(1 = 2)", "!(1 = 1)", "!('a' = 'a' | 2 < 1)", "!(2 > 1 & 'a' = 'b')", "!(1 = 2) | key = 'k9'", "!(is_int('x'))", "!(1 = 1) & key ^= 'k'"}[r.Intn(7)]
	mode := drive.Mode{Batch: r.Bool(), Size: 2, Cache: true}
	q1 := "select key, value where " + w
	o1 := drive.Run(q1, refstore.New(pairs), mode)
	rec.Eval(1)
	if o1.Status() != "ok" {
		rec.NotJudged("statement for the shown-filter comparison did not run: " + firstWords(stripPos(o1.ErrText())))
		return
	}
	shown, kind := "", ""
	if len(o1.Explain) > 0 {
		last := o1.Explain[len(o1.Explain)-1]
		if i := strings.Index(last, "FullScanPlan{Filter = '"); i >= 0 && strings.HasSuffix(last, "'}") {
			shown, kind = last[i+len("FullScanPlan{Filter = '"):len(last)-2], "full"
		} else if strings.HasPrefix(last, "EmptyResultPlan") {
			kind = "empty"
		}
	}
	rec.Inc("shown_negations_of_constants")
	if kind == "empty" {
		if len(o1.Rows) != 0 {
			c.Violation("shown-filter-is-not-the-executed-filter", "rows from a plan shown as empty", func() rt.D { return rt.D{"query": q1, "explain": o1.Explain, "rows": fmt.Sprint(o1.Rows)} })
		}
		return
	}
	if shown == "" {
		rec.NotJudged("no full-scan line with a filter in Explain()")
		return
	}
	q2 := "select key, value where " + shown
	o2 := drive.Run(q2, refstore.New(pairs), mode)
	rec.Eval(1)
	det := func() rt.D {
		return rt.D{"query": q1, "explain": o1.Explain, "shown_filter": shown, "second_query": q2, "rows": fmt.Sprint(o1.Rows), "rows_of_shown_filter": fmt.Sprint(o2.Rows), "second_outcome": outcomeBrief(o2)}
	}
	if o2.Status() != "ok" {
		if o2.PlanErr != nil && (shown == "true" || shown == "false" || strings.Contains(shown, "& true") || strings.Contains(shown, "| false") || strings.Contains(shown, "(true)") || strings.Contains(shown, "(false)")) {
			rec.NotJudged("shown filter holds a Boolean literal the checker refuses as an operand (register B21)")
			return
		}
		c.Violation("shown-filter-does-not-run", firstWords(stripPos(o2.ErrText())), det)
		return
	}
	if fmt.Sprint(o1.Rows) != fmt.Sprint(o2.Rows) {
		c.Violation("shown-filter-is-not-the-executed-filter", "rows differ (constant under !)", det)
	}
}

func (k c15) flat(c *rt.Ctx, i int) {
	// decode i into a sequence of 1..maxLen operators
	n := len(c15BinOps)
	l, p := 1, n
	for i >= p {
		i -= p
		p *= n
		l++
	}
	ops := make([]string, l)
	for j := 0; j < l; j++ {
		ops[j] = c15BinOps[i%n]
		i /= n
	}
	k.flatOps(c, ops)
}

func (k c15) flatOps(c *rt.Ctx, ops []string) {
	sh := c15Climb(ops)
	var tree *gen.Node
	ok := false
	for _, want := range []gen.T{gen.TB, gen.TN, gen.TS} {
		if tree, ok = c15Build(sh, want, c.R); ok {
			break
		}
	}
	if !ok {
		c.Rec.NotJudged("operator sequence has no well-typed reading under the documented precedence")
		return
	}
	// flat text: print without any parentheses around operators
	text := c15Flat(tree, gen.Style{R: c.R, Case: c.R.Chance(1, 3), Words: 0})
	c.Rec.Inc("flat_compared")
	k.compare(c, tree, text, "flat:"+strings.Join(ops, " "))
}

// c15Flat prints the tree with no operator parentheses at all (valid only for
// trees built from a flat sequence).
func c15Flat(n *gen.Node, st gen.Style) string {
	switch n.K {
	case gen.KBin:
		op := n.Op
		if op == "and" && n.Sym {
			op = "&"
		} else if op == "or" && n.Sym {
			op = "|"
		}
		return c15Flat(n.A[0], st) + " " + op + " " + c15Flat(n.A[1], st)
	case gen.KIn:
		parts := make([]string, len(n.A)-1)
		for i, a := range n.A[1:] {
			parts[i] = gen.Print(a)
		}
		return c15Flat(n.A[0], st) + " in (" + strings.Join(parts, ", ") + ")"
	case gen.KBetween:
		return c15Flat(n.A[0], st) + " between " + gen.Print(n.A[1]) + " and " + gen.Print(n.A[2])
	}
	return st.Print(n)
}

func (k c15) randomTree(c *rt.Ctx) {
	r := c.R
	st := &gen.Store{Family: gen.FNum}
	g := fullGenFor(c, st, r)
	g.NoAlias = true
	g.KeyLits = []string{"a", "b", "k1", "k"}
	g.ValLits = []string{"x", "1", "v 1"}
	depth := r.Range(2, 5)
	var tree *gen.Node
	switch r.Intn(4) {
	case 0:
		tree = g.N(depth, false)
	case 1:
		tree = g.S(depth, false)
	default:
		tree = g.B(depth, false)
	}
	style := gen.Style{Paren: r.Range(1, 3), R: r.Fork(), Case: r.Chance(1, 2), Tight: r.Chance(1, 4)}
	c.Rec.Inc(fmt.Sprintf("style:%d", style.Paren))
	c.Rec.Inc("tree_compared")
	k.compare(c, tree, style.Print(tree), "tree")
}

func c15ParseSlot(text string, tree *gen.Node, slot int) (kvql.Expression, string, string) {
	var q string
	switch slot {
	case 0:
		if tree.T == gen.TB {
			q = "select * where " + text
		} else {
			q = "select " + text + " where true"
		}
	case 1:
		q = "select key, " + text + " as f9 where key ^= 'k'"
	case 2:
		if tree.T == gen.TB {
			q = "delete where " + text
		} else {
			q = "select " + text + " where true"
		}
	case 3:
		if tree.T == gen.TS || tree.T == gen.TN {
			q = "put ('k', " + text + ")"
		} else {
			q = "select " + text + " where true"
		}
	default:
		q = "select " + text + " where true"
	}
	var e kvql.Expression
	var errs string
	func() {
		defer func() {
			if r := recover(); r != nil {
				errs = fmt.Sprint("panic: ", r)
			}
		}()
		stmt, err := kvql.NewParser(q).Parse()
		if err != nil {
			errs = err.Error()
			return
		}
		switch s := stmt.(type) {
		case *kvql.SelectStmt:
			if strings.HasPrefix(q, "select * where") {
				e = s.Where.Expr
			} else if slot == 1 {
				e = s.Fields[1]
			} else {
				e = s.Fields[0]
			}
		case *kvql.DeleteStmt:
			e = s.Where.Expr
		case *kvql.PutStmt:
			e = s.KVPairs[0].Value
		}
	}()
	return e, errs, q
}

func usesValue(n *gen.Node) bool {
	f := false
	n.Walk(func(x *gen.Node) {
		if x.K == gen.KValue {
			f = true
		}
	})
	return f
}

func (k c15) compare(c *rt.Ctx, tree *gen.Node, text, origin string) {
	rec := c.Rec
	slot := c.R.Intn(5)
	if slot == 3 && usesValue(tree) {
		slot = 0 // `value` is not allowed in PUT
	}
	if slot >= 2 && slot <= 3 {
		rec.Inc("slot:write")
	}
	ast, perr, q := c15ParseSlot(text, tree, slot)
	rec.Eval(1)
	want := canonGen(tree)
	nops := strings.Count(want, "(")
	if nops >= 2 {
		rec.DistinctS(text)
	}
	cl := origin
	if strings.HasPrefix(origin, "flat:") {
		// cluster by the pair of adjacent operators that matters is unknown; use the operator multiset
		cl = "flat sequence"
	}
	if perr != "" {
		if strings.HasPrefix(perr, "panic") {
			c.Violation("parser-panics", cl, func() rt.D { return rt.D{"query": q, "panic": perr} })
			return
		}
		// well-typed by construction: a rejection means the parser grouped the
		// operators differently (or the harness' typing is off)
		c.Violation("well-typed-expression-rejected", cl+" / "+firstWords(stripPos(perr)), func() rt.D {
			return rt.D{"query": q, "error": perr, "expected_tree": want, "origin": origin}
		})
		return
	}
	got := canonAST(ast)
	c.Logf("query: %s\n  expected %s\n  parsed   %s\n  String() %s", q, want, got, ast.String())
	if got != want {
		c.Violation("tree-differs-from-documented-precedence", cl+" / "+c15FirstDiff(want, got), func() rt.D {
			return rt.D{"query": q, "expected_tree": want, "parsed_tree": got, "canonical": ast.String(), "origin": origin}
		})
		return
	}
	// fixpoint: the canonical rendering re-parses to the same tree
	canon := ast.String()
	ast2, perr2, q2 := c15ParseSlot(canon, tree, slot)
	rec.Eval(1)
	rec.Inc("fixpoints")
	if perr2 != "" {
		c.Violation("canonical-form-does-not-reparse", cl+" / "+firstWords(stripPos(perr2)), func() rt.D {
			return rt.D{"query": q, "canonical": canon, "reparse_query": q2, "error": perr2}
		})
		return
	}
	got2 := canonAST(ast2)
	if got2 != got {
		c.Violation("canonical-form-reparses-differently", cl+" / "+c15FirstDiff(got, got2), func() rt.D {
			return rt.D{"query": q, "canonical": canon, "tree": got, "reparsed_tree": got2}
		})
		return
	}
	if ast2.String() != canon {
		c.Violation("canonical-form-not-a-fixpoint", cl, func() rt.D { return rt.D{"query": q, "canonical": canon, "second_rendering": ast2.String()} })
		return
	}
	if c.Case%500 == 0 && c.R.Chance(1, 10) {
		rec.Sample(rt.D{"text": text, "tree": want, "canonical": canon})
	}
}

// c15FirstDiff names the operators around the first difference.
func c15FirstDiff(a, b string) string {
	i := 0
	for i < len(a) && i < len(b) && a[i] == b[i] {
		i++
	}
	ctx := func(s string) string {
		j := strings.LastIndex(s[:min(i, len(s))], "(")
		if j < 0 {
			j = 0
		}
		e := j + 14
		if e > len(s) {
			e = len(s)
		}
		return s[j:e]
	}
	return "expected " + ctx(a) + ".. got " + ctx(b) + ".."
}
