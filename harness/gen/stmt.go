package gen

import (
	"fmt"
	"strings"
)

type Field struct {
	E     *Node
	Alias string // "" = none
}

type OrderItem struct {
	Name string // alias, or "key"/"value"
	Desc bool
	Bare bool // no explicit asc/desc keyword
}

type Stmt struct {
	Kind    string // select | put | remove | delete
	Star    bool
	Fields  []Field
	Where   *Node
	GroupBy []string
	OrderBy []OrderItem
	HasLim  bool
	LimOne  bool // "limit n" form
	Start   int
	Count   int
	Pairs   [][2]*Node
	Keys    []*Node
}

// Text renders the statement. Expanded=true replaces every alias use by its
// parenthesised definition and drops AS clauses that are then unused (aliases
// referenced by ORDER BY / GROUP BY are kept, since those clauses need names).
func (s *Stmt) Text(st Style) string { return s.text(st, false) }

func (s *Stmt) TextExpanded(st Style) string { return s.text(st, true) }

func (s *Stmt) text(st Style, expand bool) string {
	var b strings.Builder
	pr := func(n *Node) string {
		if expand {
			n = n.Expand()
		}
		return st.Print(n)
	}
	switch s.Kind {
	case "put":
		b.WriteString(st.word("put") + " ")
		for i, p := range s.Pairs {
			if i > 0 {
				b.WriteString(", ")
			}
			b.WriteString("(" + pr(p[0]) + ", " + pr(p[1]) + ")")
		}
		return b.String()
	case "remove":
		b.WriteString(st.word("remove") + " ")
		for i, k := range s.Keys {
			if i > 0 {
				b.WriteString(", ")
			}
			b.WriteString(pr(k))
		}
		return b.String()
	case "delete":
		b.WriteString(st.word("delete") + " " + st.word("where") + " " + pr(s.Where))
		s.limit(&b, st)
		return b.String()
	}
	// the short form `where ...` (accepted by the parser and used by the library's own tests,
	// though not part of the documented grammar) stands for `select * where ...`; it is only
	// generated without ORDER BY / GROUP BY, whose field names it does not define
	short := s.Star && len(s.OrderBy) == 0 && len(s.GroupBy) == 0 && st.R != nil && st.R.Chance(1, 3)
	if !short {
		b.WriteString(st.word("select") + " ")
	}
	if s.Star {
		if !short {
			b.WriteString("*")
		}
	} else {
		for i, f := range s.Fields {
			if i > 0 {
				b.WriteString(", ")
			}
			b.WriteString(pr(f.E))
			if f.Alias != "" {
				b.WriteString(" " + st.word("as") + " " + f.Alias)
			}
		}
	}
	if !short {
		b.WriteString(" ")
	}
	b.WriteString(st.word("where") + " " + pr(s.Where))
	if len(s.GroupBy) > 0 {
		b.WriteString(" " + st.word("group") + " " + st.word("by") + " " + strings.Join(s.GroupBy, ", "))
	}
	if len(s.OrderBy) > 0 {
		b.WriteString(" " + st.word("order") + " " + st.word("by") + " ")
		for i, o := range s.OrderBy {
			if i > 0 {
				b.WriteString(", ")
			}
			b.WriteString(o.Name)
			if o.Desc {
				b.WriteString(" " + st.word("desc"))
			} else if !o.Bare {
				b.WriteString(" " + st.word("asc"))
			}
		}
	}
	s.limit(&b, st)
	return b.String()
}

func (s *Stmt) limit(b *strings.Builder, st Style) {
	if !s.HasLim {
		return
	}
	if s.LimOne && s.Start == 0 {
		fmt.Fprintf(b, " %s %d", st.word("limit"), s.Count)
	} else {
		fmt.Fprintf(b, " %s %d, %d", st.word("limit"), s.Start, s.Count)
	}
}

// WithoutLimit / WithoutOrder return shallow copies.
func (s *Stmt) WithoutLimit() *Stmt { c := *s; c.HasLim = false; return &c }
func (s *Stmt) WithoutOrder() *Stmt { c := *s; c.OrderBy = nil; return &c }

func (s *Stmt) IsAggregate() bool {
	for _, f := range s.Fields {
		if f.E.HasAggr() {
			return true
		}
	}
	return false
}

// UsesAlias reports whether any alias reference occurs in the statement.
func (s *Stmt) UsesAlias() bool {
	found := false
	chk := func(n *Node) {
		if n == nil {
			return
		}
		n.Walk(func(x *Node) {
			if x.K == KRef {
				found = true
			}
		})
	}
	chk(s.Where)
	for _, f := range s.Fields {
		chk(f.E)
	}
	return found
}
