#!/usr/bin/env python3
"""Verifies each sub-agent mutant in a scratch worktree of /repo HEAD and imports it into /verif/seeded/<id>/.
usage: seeded_import.py [cNN ...]"""
import json, os, subprocess, sys, shutil, glob
ENV = dict(os.environ, GOFLAGS="-mod=mod", GOPROXY="off", GOSUMDB="off", GOTOOLCHAIN="local")
WT = "/tmp/seedwt"
def run(cmd, cwd=None, timeout=600):
    p = subprocess.run(cmd, shell=True, cwd=cwd, env=ENV, capture_output=True, text=True, timeout=timeout)
    return p.returncode, (p.stdout + p.stderr)
NEEDS = json.load(open("/verif/tools/seeded_needs.json")) if os.path.exists("/verif/tools/seeded_needs.json") else {}
SRC = os.environ.get("SEED_SRC", "/tmp/wt")
RACE = "-race" if os.environ.get("SEED_RACE") else ""  # demos that need the race detector (C19)
_L = os.environ.get("SEED_LETTERS", "ab")
IDMAP = dict(zip("ab", _L.split(",") if "," in _L else _L))  # "yz" or "aa,ab"
def main():
    dirs = sys.argv[1:] or ["c%02d" % i for i in range(1, 20)]
    run("git -C /repo worktree remove --force %s" % WT)
    rc, out = run("git -C /repo worktree add --detach %s HEAD" % WT)
    assert rc == 0, out
    head = run("git -C /repo rev-parse --short HEAD")[1].strip()
    try:
        for d in dirs:
            for x in "ab":
                prop = d.upper()
                sid = "%s-%s" % (prop, IDMAP[x])
                src = "/tmp/rebased/%s_%s.patch" % (d, IDMAP[x])
                rebased = os.path.exists(src)
                if not rebased:
                    src = "%s/%s/mutant_%s.patch" % (SRC, d, x)
                demo = "%s/%s/seeded_demo_%s_test.go" % (SRC, d, x)
                if not os.path.exists(src) or not os.path.exists(demo):
                    print(sid, "missing files"); continue
                meta = {"id": sid, "breaks_property": prop, "source": "independent sub-agent given only the property text and a scratch worktree of the pinned commit", "verified_on_repo_head": head, "rebased_by_hand": rebased}
                run("git checkout -- . && git clean -fdq", cwd=WT)
                shutil.copy(demo, WT + "/seeded_demo_test.go")
                if x == "b" and d in os.environ.get("SEED_BOTH", "").split():
                    # demo B uses helpers defined in demo A's file: both files go into the package
                    shutil.copy("%s/%s/seeded_demo_a_test.go" % (SRC, d), WT + "/seeded_demo_helper_test.go")
                    meta["demo_needs_helper_file"] = "demo_helper_test.go.txt (the other demo of the same sub-agent, whose helpers this one uses)"
                rc, out = run("go test %s -vet=off -count=1 -run TestSeededDemo ." % RACE, cwd=WT, timeout=900)
                meta["demo_passes_without_change"] = rc == 0
                rc1, o1 = run("git apply --check %s" % src, cwd=WT)
                if rc1 == 0:
                    run("git apply %s" % src, cwd=WT)
                else:
                    rc2, o2 = run("git apply -3 %s" % src, cwd=WT)
                    unmerged = run("git diff --name-only --diff-filter=U", cwd=WT)[1].strip()
                    if rc2 != 0 or unmerged:
                        run("git reset -q --hard HEAD", cwd=WT)
                        meta["applies"] = False
                        print(sid, "DOES NOT APPLY"); write(sid, meta, None, demo); continue
                    run("git reset -q", cwd=WT)
                meta["applies"] = True
                rc, out = run("go build ./...", cwd=WT)
                meta["compiles"] = rc == 0
                rc, out = run("go test -vet=off -count=1 -skip TestSeededDemo ./...", cwd=WT)
                meta["existing_suite_passes_with_change"] = rc == 0
                rc, out = run("go test %s -vet=off -count=1 -run TestSeededDemo ." % RACE, cwd=WT, timeout=900)
                meta["demo_fails_with_change"] = rc != 0
                meta["demo_failure_excerpt"] = "\n".join([l for l in out.splitlines() if l.strip()][:8])
                patch = run("git diff -- '*.go' ':!*_test.go'", cwd=WT)[1]
                run("git checkout -- . && git clean -fdq", cwd=WT)
                nd = NEEDS.get(sid, {})
                meta["change"] = nd.get("change", "")
                meta["needs_to_manifest"] = nd.get("needs", "")
                meta["what_i_ran"] = ["scratch worktree of /repo HEAD: go test -run TestSeededDemo (clean)", "git apply; go build; go test -skip TestSeededDemo ./... (existing suite); go test %s -run TestSeededDemo (must fail)" % RACE]
                write(sid, meta, patch, demo)
                ok = meta["demo_passes_without_change"] and meta["compiles"] and meta["existing_suite_passes_with_change"] and meta["demo_fails_with_change"]
                print(sid, "OK" if ok else "REJECTED", {k: meta[k] for k in ("demo_passes_without_change", "compiles", "existing_suite_passes_with_change", "demo_fails_with_change")})
    finally:
        run("git -C /repo worktree remove --force %s" % WT)
def write(sid, meta, patch, demo):
    d = "/verif/seeded/" + sid
    os.makedirs(d, exist_ok=True)
    if patch is not None:
        open(d + "/patch.diff", "w").write(patch)
    shutil.copy(demo, d + "/demo_test.go.txt")
    if meta.get("demo_needs_helper_file"):
        shutil.copy(os.path.join(os.path.dirname(demo), "seeded_demo_a_test.go"), d + "/demo_helper_test.go.txt")
    old = {}
    if os.path.exists(d + "/meta.json"):
        old = json.load(open(d + "/meta.json"))
    for k in ("detected_by", "checks_run", "kept", "note"):
        if k in old and k not in meta:
            meta[k] = old[k]
    json.dump(meta, open(d + "/meta.json", "w"), indent=1)
main()
