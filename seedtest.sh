#!/bin/bash
# seedtest.sh <patch> <ID> [tier] : apply a seeded defect to /repo, run one check, undo.
# Never leaves /repo modified. Prints the check's verdict lines and exit code.
set -u
PATCH=$(realpath "$1"); ID=$2; TIER=${3:-quick}
cd /repo || exit 2
if [ -n "$(git status --porcelain --untracked-files=no)" ]; then echo "repo not clean"; exit 2; fi
if ! git apply --check "$PATCH" 2>/dev/null; then echo "SEEDTEST patch does not apply: $PATCH"; exit 3; fi
git apply "$PATCH"
trap 'git -C /repo checkout -- . ' EXIT
cd /verif && ./run.sh "$ID" "$TIER" > .work/seedtest.$ID.out 2>&1
rc=$?
grep -E '^(VIOLATION|INCONCLUSIVE|SUMMARY|KNOWN)' .work/seedtest.$ID.out | head -8
grep -A1 '^VIOLATION' .work/seedtest.$ID.out | grep oracle | head -5
echo "SEEDTEST $ID $(basename $(dirname $PATCH))/$(basename $PATCH) exit=$rc"
exit 0
