package main

import (
	"fmt"
	"os"

	"kvqlverif/drive"
	"kvqlverif/refstore"
)

func main() {
	ps := []refstore.Pair{{K: "k1", V: "1"}, {K: "k2", V: "2"}, {K: "k3", V: "3"}}
	for _, q := range os.Args[1:] {
		for _, b := range []bool{false, true} {
			st := refstore.New(ps)
			o := drive.Run(q, st, drive.Mode{Batch: b, Size: 2, Cache: true})
			fmt.Printf("%q batch=%v status=%s rows=%v damage=%v\n", q, b, o.Status(), o.Rows, st.ArenaDamage())
		}
	}
}
