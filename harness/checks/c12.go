package checks

import (
	"fmt"
	"strconv"
	"strings"

	"kvqlverif/drive"
	"kvqlverif/gen"
	"kvqlverif/refeval"
	"kvqlverif/refstore"
	"kvqlverif/rt"
)

// C12 — PUT and REMOVE apply exactly the stated writes, once, all-or-nothing.
// Model map + log grammar over the refstore event log.

type c12 struct{ rt.Base }

func init() { rt.Register(&c12{}) }

func (c12) ID() string { return "C12" }

func (c12) NumCases(tier string) int {
	if tier == "thorough" {
		return 150000
	}
	return 8000
}

func (c12) Rule() string {
	return "PUT statements with 1..6 pairs and REMOVE statements with 1..5 keys whose expressions are literals, integers, concatenations, function calls and (in values) `key`, with duplicates and with an expression that fails at run time placed at every position; each run in row or batch mode followed by 1..5 extra polls in a PRNG-chosen Next/Batch pattern and by a follow-up select per written key. Non-trivial: the statement was accepted and has at least one pair/key; distinct by (statement, prior state) hash."
}

func (c12) Assumptions() []string {
	return []string{"reference evaluator refeval for the key/value expressions (float renderings are not generated: B15)", "how the n pairs are split over Put/BatchPut calls is not part of the property; only their multiset, order and exactly-once-ness"}
}

func (c12) Gates(tier string, m map[string]int64) []rt.Gate {
	return []rt.Gate{
		rt.GateMin("successful puts judged", m, "put_ok", 500),
		rt.GateMin("successful removes judged", m, "remove_ok", 200),
		rt.GateMin("failing expression at some position (all-or-nothing)", m, "failing_expr_cases", 200),
		rt.GateMin("several-pair statements compared with their pairs one by one", m, "pair_independence_statements", 100),
		rt.GateMin("duplicate keys in one statement", m, "dup_keys", 50),
		rt.GateMin("value expressions using `key`", m, "value_uses_key", 200),
		rt.GateMin("extra polls issued", m, "extra_polls", 1000),
		rt.GateMin("follow-up selects", m, "followups", 500),
		rt.GateMin("put/remove roundtrips over the same key expression (incl. float-valued ones)", m, "roundtrips", 100),
	}
}

type c12Expr struct {
	n    *gen.Node
	fail bool // fails at evaluation
}

var c12KeyPool = []string{"p1", "p2", "k001", "k002", "a", "zz", "new key", "K", "caf\xc3\xa9", "na\xc3\xafve", "\xe6\x97\xa5\xe6\x9c\xac", "\xc3\xa9a"}

func c12Failing(r *rt.Rand, text bool) *gen.Node {
	// run-time failures the checker cannot see
	var n *gen.Node
	if r.Chance(1, 5) {
		// a named member of something that is no document (a number, an array)
		doc := []string{`{"n": 7}`, `{"n": [1, 2]}`, `{"n": true, "m": {"y": "z"}}`}[r.Intn(3)]
		n = gen.IndexS(gen.IndexS(gen.Call("json", gen.Str(doc)), "n"), "y")
	} else if r.Bool() {
		n = []*gen.Node{gen.Bin("/", gen.Int(10), gen.Call("strlen", gen.Str(""))), // division by zero, of every operand kind
			gen.Bin("/", gen.Float("1.5"), gen.Call("strlen", gen.Str(""))),
			gen.Bin("/", gen.Int(3), gen.Bin("-", gen.Float("0.5"), gen.Float("0.5"))),
			gen.Bin("/", gen.Float("4.5"), gen.Bin("-", gen.Float("0.5"), gen.Float("0.5"))),
			gen.Bin("/", gen.Int(3), gen.Call("float", gen.Str("0"))),
			// wave 15 (C12-ab): the failing operand as the right factor of a product whose left factor is zero -
			// nothing in the documentation lets a zero excuse the other operand from being evaluated
			gen.Bin("*", gen.Call("strlen", gen.Str("")), gen.Bin("/", gen.Int(10), gen.Call("strlen", gen.Str("")))),
			gen.Bin("*", gen.Bin("-", gen.Call("strlen", gen.Str("a")), gen.Int(1)), gen.Bin("/", gen.Int(1), gen.Bin("-", gen.Call("strlen", gen.Str("b")), gen.Int(1)))),
			gen.Bin("*", gen.Int(0), gen.Bin("/", gen.Int(3), gen.Call("strlen", gen.Str(""))))}[r.Intn(8)]
	} else {
		// unequal lengths, the shorter vector on either side
		n = []*gen.Node{gen.Call("l2_distance", gen.Call("list", gen.Int(1), gen.Int(2)), gen.Call("list", gen.Int(1))),
			gen.Call("l2_distance", gen.Call("list", gen.Int(1)), gen.Call("list", gen.Int(1), gen.Int(2))),
			gen.Call("l2_distance", gen.Call("float_list", gen.Int(0), gen.Int(3)), gen.Call("float_list", gen.Int(4), gen.Int(0), gen.Int(7))),
			gen.Call("cosine_distance", gen.Call("list", gen.Int(1)), gen.Call("list", gen.Int(1), gen.Int(2)))}[r.Intn(4)]
	}
	if text {
		// the failing operand at every place of a chain of concatenations
		f := gen.Call("str", n)
		switch r.Intn(6) {
		case 0:
			return gen.Bin("+", gen.Bin("+", gen.Str("v"), f), gen.Str("z"))
		case 1:
			return gen.Bin("+", gen.Bin("+", f, gen.Str("y")), gen.Str("z"))
		case 2:
			return gen.Bin("+", gen.Bin("+", gen.Str("x"), gen.Str("y")), f)
		case 3:
			return gen.Bin("+", gen.Str("x"), gen.Bin("+", gen.Str("y"), f))
		case 4:
			return gen.Bin("+", gen.Bin("+", gen.Bin("+", gen.Str("w"), gen.Call("upper", gen.Bin("+", gen.Str("x"), f))), gen.Str("y")), gen.Str("z"))
		}
		return gen.Bin("+", gen.Str("v"), f)
	}
	return n
}

func c12KeyExpr(r *rt.Rand) *gen.Node {
	switch r.Intn(8) {
	case 7: // a list length (an integer like any other)
		return gen.Call("len", gen.Call("split", gen.Str([]string{"a,b,c", "x", "1,2"}[r.Intn(3)]), gen.Str(",")))
	case 0, 1:
		return gen.Str(c12KeyPool[r.Intn(len(c12KeyPool))])
	case 2:
		if r.Chance(1, 3) {
			return gen.IntPadded(int64(r.Range(8, 19)), r.Range(3, 4)) // 010 is ten, 0017 seventeen
		}
		return gen.Int(int64(r.Range(0, 12)))
	case 3:
		if r.Chance(1, 3) {
			return gen.Bin("+", gen.Str("p"), gen.Call("str", gen.IntPadded(int64(r.Range(8, 12)), 3)))
		}
		return gen.Bin("+", gen.Str("p"), gen.Call("str", gen.Int(int64(r.Range(1, 3)))))
	case 4:
		if r.Chance(1, 3) {
			return gen.Call("join", gen.Str("/"), gen.Str(""), gen.Str("usr"), gen.Str([]string{"bin", "lib", "cr\xc3\xa8me br\xc3\xbbl\xc3\xa9e"}[r.Intn(3)]))
		}
		return gen.Call("upper", gen.Str([]string{"ka", "kb", "p1"}[r.Intn(3)]))
	case 5:
		if r.Chance(1, 4) {
			return gen.Call("int", gen.Str([]string{"4.0", "11.0"}[r.Intn(2)]))
		}
		return gen.Bin("+", gen.Int(int64(r.Range(1, 5))), gen.Int(int64(r.Range(1, 5))))
	}
	return gen.Call("lower", gen.Str("KEY"+strconv.Itoa(r.Intn(3))))
}

func c12ValExpr(r *rt.Rand) (*gen.Node, bool) {
	switch r.Intn(17) {
	case 14: // `key` inside the numeric arguments of a call
		return gen.Call("substr", gen.Key(), gen.Int(0), gen.Bin("-", gen.Call("strlen", gen.Key()), gen.Int(1))), true
	case 15:
		return gen.Call("substr", gen.Str("uvwxyz0123456789"), gen.Int(0), gen.Call("strlen", gen.Key())), true
	case 16:
		if r.Chance(1, 3) {
			// the text of a whole decimal, converted directly
			if r.Bool() {
				return gen.Call("int", gen.Str([]string{"3.0", "12.0", "250.00"}[r.Intn(3)])), false
			}
			return gen.Bin("+", gen.Call("int", gen.Str([]string{"3.0", "12.0", "40.0"}[r.Intn(3)])), gen.Int(1)), false
		}
		return gen.IntPadded(int64(r.Range(8, 40)), r.Range(3, 5)), false
	case 11: // two concatenations starting at `key` alive at the same time
		return gen.Bin("+", gen.Bin("+", gen.Key(), gen.Str("a")), gen.Bin("+", gen.Key(), gen.Str("b"))), true
	case 12:
		return gen.Bin("+", gen.Bin("+", gen.Key(), gen.Str("-")), gen.Call("lower", gen.Bin("+", gen.Key(), gen.Str("Z")))), true
	case 13:
		return gen.Bin("+", gen.Bin("+", gen.Key(), gen.Str(":")), gen.Call("str", gen.Call("strlen", gen.Bin("+", gen.Key(), gen.Str("abc"))))), true
	case 9:
		return gen.Call("len", gen.Call("split", gen.Key(), gen.Str([]string{"a", "k", "1"}[r.Intn(3)]))), true
	case 10:
		return gen.Call("len", gen.Call("list", gen.Int(1), gen.Int(2), gen.Int(3))), false
	case 0:
		return gen.Str([]string{"v1", "", "x,y", "it is", "cr\xc3\xa8me br\xc3\xbbl\xc3\xa9e", "\xc3\xbc"}[r.Intn(6)]), false
	case 1:
		return gen.Bin("+", gen.Str("v_"), gen.Key()), true
	case 2:
		return gen.Call("upper", gen.Key()), true
	case 3:
		return gen.Bin("*", gen.Int(int64(r.Range(0, 9))), gen.Int(int64(r.Range(1, 9)))), false
	case 4:
		if r.Chance(1, 3) { // leading empty elements: the separator still stands between all of them
			return gen.Call("join", gen.Str([]string{"/", ":", "-"}[r.Intn(3)]), gen.Str(""), gen.Str(""), gen.Key(), gen.Str("bin")), true
		}
		return gen.Call("join", gen.Str(","), gen.Int(int64(r.Intn(5))), gen.Key(), gen.Str("z")), true
	case 5:
		return gen.Call("strlen", gen.Key()), true
	case 6:
		return gen.Bin("+", gen.Key(), gen.Key()), true
	case 7:
		return gen.Int(int64(r.Range(0, 100))), false
	}
	return gen.Call("str", gen.Call("strlen", gen.Bin("+", gen.Key(), gen.Str("ab")))), true
}

func c12Render(v refeval.Val) (string, bool) {
	switch v.K {
	case refeval.VText:
		return v.S, true
	case refeval.VInt:
		return strconv.FormatInt(v.I, 10), true
	}
	return "", false
}

// roundtrip: `put (E, 'v')` followed by `remove E` must delete the very key
// the put wrote, whatever the (undocumented) text rendering of E's value is.
func (k c12) roundtrip(c *rt.Ctx) {
	r := c.R
	rec := c.Rec
	exprs := []*gen.Node{
		gen.Float("1.5"), gen.Float("2.0"), gen.Bin("+", gen.Float("1.0"), gen.Float("0.25")), gen.Bin("/", gen.Int(7), gen.Float("2.0")),
		gen.Bin("*", gen.Int(3), gen.Float("0.5")), gen.Call("float", gen.Str("0.1")), gen.Bin("-", gen.Int(0), gen.Float("2.5")),
		gen.Int(12), gen.Bin("+", gen.Str("k"), gen.Str("9")), gen.Call("upper", gen.Str("ab")), gen.Call("strlen", gen.Str("abc")), gen.Call("float", gen.Int(3)),
		gen.Call("l2_distance", gen.Call("list", gen.Int(3)), gen.Call("list", gen.Int(0))),
	}
	e := exprs[r.Intn(len(exprs))]
	prior := []refstore.Pair{{K: "a", V: "1"}, {K: "k9", V: "old"}, {K: "z", V: "2"}}
	st := refstore.New(prior)
	mode := drive.Mode{Batch: r.Bool(), Size: 3, Cache: true}
	pq := "put (" + gen.Print(e) + ", 'roundtrip')"
	po := drive.Run(pq, st, mode)
	rec.Eval(1)
	if po.Status() != "ok" {
		rec.NotJudged("roundtrip put not accepted: " + po.Status())
		return
	}
	var written string
	n := 0
	for _, ev := range st.Log() {
		if ev.Op == refstore.OpPut {
			written = ev.Key
			n++
		}
	}
	if n != 1 {
		c.Violation("write-log", "put / roundtrip put did not issue exactly one Put", func() rt.D { return rt.D{"statement": pq, "storage_log": refstore.FormatLog(st.Log())} })
		return
	}
	st.ResetLog()
	rq := "remove " + gen.Print(e)
	ro := drive.Run(rq, st, drive.Mode{Batch: r.Bool(), Size: 3, Cache: true})
	rec.Eval(1)
	rec.Inc("roundtrips")
	rec.DistinctS(pq + rq)
	if ro.Status() != "ok" {
		c.Violation("valid-statement-failed", "remove / roundtrip remove fails", func() rt.D { return rt.D{"put": pq, "remove": rq, "outcome": outcomeBrief(ro)} })
		return
	}
	want := []refstore.Pair{}
	for _, p := range prior {
		if p.K != written {
			want = append(want, p)
		}
	}
	if !st.Equal(want) {
		c.Violation("put-remove-roundtrip", "remove E does not delete the key that put (E, v) wrote / "+gen.Shape(e), func() rt.D {
			return rt.D{"put": pq, "remove": rq, "key_written_by_put": written, "storage_log_of_remove": refstore.FormatLog(st.Log()), "state": storeBrief(st.Pairs())}
		})
	}
}

// independence: the pairs of one PUT are evaluated each by itself - whatever an expression means
// (also `key` inside a key expression, which the documentation does not define), a pair writes in
// a several-pair statement what it writes in a statement of its own.
func (k c12) independence(c *rt.Ctx) {
	r := c.R
	rec := c.Rec
	keyish := func() *gen.Node {
		switch r.Intn(5) {
		case 0:
			return gen.Bin("+", gen.Key(), gen.Str([]string{"b", "id", "_x"}[r.Intn(3)]))
		case 1:
			return gen.Call("upper", gen.Bin("+", gen.Key(), gen.Str("id")))
		case 2:
			return gen.Bin("+", gen.Str("p"), gen.Call("str", gen.Call("strlen", gen.Key())))
		case 3:
			return gen.Bin("+", gen.Bin("+", gen.Str("q"), gen.Key()), gen.Str("r"))
		}
		return c12KeyExpr(r)
	}
	n := r.Range(2, 5)
	var pairs [][2]*gen.Node
	for i := 0; i < n; i++ {
		ke := c12KeyExpr(r)
		if i > 0 || r.Chance(1, 3) {
			ke = keyish()
		}
		ve, _ := c12ValExpr(r)
		pairs = append(pairs, [2]*gen.Node{ke, ve})
	}
	prior := []refstore.Pair{{K: "a", V: "1"}, {K: "ab", V: "old"}, {K: "z", V: "2"}}
	mode := drive.Mode{Batch: r.Bool(), Size: 3, Cache: true}
	type kv struct{ k, v string }
	writesOf := func(q string) ([]kv, *drive.Outcome) {
		st := refstore.New(prior)
		o := drive.Run(q, st, mode)
		rec.Eval(1)
		var w []kv
		for _, e := range st.Log() {
			switch e.Op {
			case refstore.OpPut:
				w = append(w, kv{e.Key, e.Vals[0]})
			case refstore.OpBatchPut:
				for i := range e.Keys {
					w = append(w, kv{e.Keys[i], e.Vals[i]})
				}
			}
		}
		return w, o
	}
	var alone []kv
	var texts []string
	for _, p := range pairs {
		t := "(" + gen.Print(p[0]) + ", " + gen.Print(p[1]) + ")"
		texts = append(texts, t)
		w, o := writesOf("put " + t)
		if o.Status() != "ok" || len(w) != 1 {
			rec.NotJudged("a pair is not accepted or does not write exactly once in a statement of its own")
			return
		}
		alone = append(alone, w[0])
	}
	q := "put " + strings.Join(texts, ", ")
	together, o := writesOf(q)
	rec.Inc("pair_independence_statements")
	rec.DistinctS(q)
	if o.Status() != "ok" {
		c.Violation("valid-statement-failed", "put / pairs accepted one by one fail together", func() rt.D { return rt.D{"statement": q, "outcome": outcomeBrief(o)} })
		return
	}
	if fmt.Sprint(together) != fmt.Sprint(alone) {
		c.Violation("write-log", "put / a pair writes something else next to other pairs than in a statement of its own", func() rt.D {
			return rt.D{"statement": q, "mode": mode.String(), "writes": fmt.Sprint(together), "writes_of_each_pair_alone": fmt.Sprint(alone)}
		})
	}
}

func (k c12) Run(c *rt.Ctx) {
	if c.Case%20 == 7 {
		k.roundtrip(c)
		return
	}
	if c.Case%20 == 13 {
		k.independence(c)
		return
	}
	r := c.R
	rec := c.Rec
	prior := gen.NewStore(r, []string{gen.FTiny, gen.FNum, gen.FWide, gen.FTies}[r.Intn(4)]).Pairs
	if r.Chance(1, 3) {
		prior = append(prior, refstore.Pair{K: "k001", V: "old"}, refstore.Pair{K: "p1", V: "old"})
		prior = refstore.New(prior).Pairs()
	}
	isPut := r.Chance(2, 3)
	stmt := &gen.Stmt{}
	failAt := -1
	nItems := 0
	usesKey := false
	if isPut {
		stmt.Kind = "put"
		nItems = r.Range(1, 6)
		if r.Chance(1, 4) {
			failAt = r.Intn(nItems * 2) // which key (even) or value (odd) expression fails
		}
		for i := 0; i < nItems; i++ {
			ke := c12KeyExpr(r)
			ve, uk := c12ValExpr(r)
			usesKey = usesKey || uk
			if i > 0 && r.Chance(1, 5) {
				ke = stmt.Pairs[r.Intn(i)][0] // duplicate key
			}
			if failAt == 2*i {
				ke = c12Failing(r, r.Bool())
			}
			if failAt == 2*i+1 {
				ve = c12Failing(r, r.Bool())
			}
			stmt.Pairs = append(stmt.Pairs, [2]*gen.Node{ke, ve})
		}
	} else {
		stmt.Kind = "remove"
		nItems = r.Range(1, 5)
		if r.Chance(1, 4) {
			failAt = r.Intn(nItems)
		}
		for i := 0; i < nItems; i++ {
			ke := c12KeyExpr(r)
			if r.Chance(1, 3) && len(prior) > 0 {
				pk := prior[r.Intn(len(prior))].K
				if gen.Printable(pk) {
					ke = gen.Str(pk)
				}
			}
			if i > 0 && r.Chance(1, 6) {
				ke = stmt.Keys[r.Intn(i)]
			}
			if failAt == i {
				ke = c12Failing(r, r.Bool())
			}
			stmt.Keys = append(stmt.Keys, ke)
		}
	}
	query := stmt.Text(gen.Style{Paren: 0, R: r.Fork(), Case: r.Chance(1, 4)})
	// reference: evaluate every expression
	type kv struct{ k, v string }
	var writes []kv
	refFails := false
	judgeable := true
	if isPut {
		for _, p := range stmt.Pairs {
			env := &refeval.Env{}
			kvv, ok := env.Eval(p[0])
			if !ok {
				if env.DistanceMustFail(firstCall(p[0])) || isDivZero(env.Why) {
					refFails = true
					break
				}
				judgeable = false
				break
			}
			ks, ok := c12Render(kvv)
			if !ok {
				judgeable = false
				break
			}
			env2 := &refeval.Env{Key: ks}
			vv, ok := env2.Eval(p[1])
			if !ok {
				if env2.DistanceMustFail(firstCall(p[1])) || isDivZero(env2.Why) {
					refFails = true
					break
				}
				judgeable = false
				break
			}
			vs, ok := c12Render(vv)
			if !ok {
				judgeable = false
				break
			}
			writes = append(writes, kv{ks, vs})
		}
	} else {
		for _, ke := range stmt.Keys {
			env := &refeval.Env{}
			kvv, ok := env.Eval(ke)
			if !ok {
				if env.DistanceMustFail(firstCall(ke)) || isDivZero(env.Why) {
					refFails = true
					break
				}
				judgeable = false
				break
			}
			ks, ok := c12Render(kvv)
			if !ok {
				judgeable = false
				break
			}
			writes = append(writes, kv{ks, ""})
		}
	}
	if !judgeable {
		rec.NotJudged("an expression is outside the reference evaluator")
		return
	}
	if (failAt >= 0) != refFails {
		rec.NotJudged("generator and reference disagree on whether an expression fails (harness)")
		return
	}
	// model
	model := map[string]string{}
	for _, p := range prior {
		model[p.K] = p.V
	}
	if !refFails {
		for _, w := range writes {
			if isPut {
				model[w.k] = w.v
			} else {
				delete(model, w.k)
			}
		}
	}
	var want []refstore.Pair
	for kk, v := range model {
		want = append(want, refstore.Pair{K: kk, V: v})
	}
	want = refstore.New(want).Pairs()

	mode := drive.Mode{Batch: r.Bool(), Size: pickBatch(c), Cache: true, ExtraPolls: r.Range(1, 5)}
	st := refstore.New(prior)
	o := drive.Run(query, st, mode)
	rec.Eval(1)
	rec.DistinctS(query + "\x00" + pairsKey(prior))
	log := st.Log()
	c.Logf("statement: %s\nprior: %v\nmode: %s\noutcome: %v\nlog: %v\nexpected state: %v", query, storeBrief(prior), mode, outcomeBrief(o), refstore.FormatLog(log), storeBrief(want))
	detail := func(extra rt.D) func() rt.D {
		return func() rt.D {
			d := rt.D{"statement": query, "prior": storeBrief(prior), "mode": mode.String(), "outcome": outcomeBrief(o), "storage_log": trimLog(refstore.FormatLog(log)), "expected_state": storeBrief(want), "state": storeBrief(st.Pairs())}
			for kk, v := range extra {
				d[kk] = v
			}
			return d
		}
	}
	kind := stmt.Kind
	cluster := func(what string) string { return kind + " / " + what }
	if o.Status() == "panic" || o.Status() == "runaway" {
		c.Violation("crash", cluster(o.Frame), detail(nil))
		return
	}
	if o.PlanErr != nil {
		rec.NotJudged("statement rejected at plan time (C14 judges acceptance)")
		return
	}
	// collect write events
	var wk, wv []string
	for _, e := range log {
		switch e.Op {
		case refstore.OpPut:
			wk = append(wk, e.Key)
			wv = append(wv, e.Vals[0])
		case refstore.OpBatchPut:
			wk = append(wk, e.Keys...)
			wv = append(wv, e.Vals...)
		case refstore.OpDelete:
			wk = append(wk, e.Key)
			wv = append(wv, "\x00del")
		case refstore.OpBatchDelete:
			wk = append(wk, e.Keys...)
			for range e.Keys {
				wv = append(wv, "\x00del")
			}
		}
	}
	if refFails {
		rec.Inc("failing_expr_cases")
		if o.ExecErr == nil {
			c.Violation("failing-expression-not-reported", cluster("statement succeeded although an expression fails"), detail(rt.D{"failing_position": failAt}))
			return
		}
		if len(wk) > 0 {
			c.Violation("partial-write-on-failure", cluster(sprintf("writes issued although expression %d fails", failAt)), detail(rt.D{"failing_position": failAt, "written_keys": wk}))
			return
		}
		if !st.Equal(prior) {
			c.Violation("state-changed-on-failure", cluster("store changed"), detail(nil))
		}
		return
	}
	if o.ExecErr != nil {
		c.Violation("valid-statement-failed", cluster(firstWords(o.ErrText())), detail(nil))
		return
	}
	if isPut {
		rec.Inc("put_ok")
	} else {
		rec.Inc("remove_ok")
	}
	if usesKey {
		rec.Inc("value_uses_key")
	}
	seen := map[string]bool{}
	for _, w := range writes {
		if seen[w.k] {
			rec.Inc("dup_keys")
			break
		}
		seen[w.k] = true
	}
	// log grammar: the writes, once, in statement order
	okSeq := len(wk) == len(writes)
	if okSeq {
		for i, w := range writes {
			wantV := w.v
			if !isPut {
				wantV = "\x00del"
			}
			if wk[i] != w.k || wv[i] != wantV {
				okSeq = false
				break
			}
		}
	}
	if !okSeq {
		what := "write sequence differs from the statement"
		if len(wk) > len(writes) {
			what = "more writes than stated (written twice?)"
		} else if len(wk) < len(writes) {
			what = "fewer writes than stated"
		}
		c.Violation("write-log", cluster(what), detail(rt.D{"expected_writes": writes, "written_keys": wk, "written_values": wv}))
		return
	}
	if !st.Equal(want) {
		c.Violation("post-state", cluster("store differs from the model"), detail(rt.D{"diff": diffPairs(want, st.Pairs())}))
		return
	}
	rec.Count("extra_polls", int64(mode.ExtraPolls))
	if o.ExtraRows > 0 || o.ExtraErr != nil {
		c.Violation("finished-plan-returns-rows", cluster("extra poll returned a row or an error"), detail(rt.D{"extra_rows": o.ExtraRows}))
		return
	}
	// follow-up select observes the write
	if isPut {
		final := map[string]string{}
		for _, w := range writes {
			final[w.k] = w.v
		}
		for kk, v := range final {
			if !gen.Printable(kk) {
				continue
			}
			fq := "select * where key = '" + kk + "'"
			fo := drive.Run(fq, st, drive.Mode{Batch: r.Bool(), Size: 3, Cache: true})
			rec.Eval(1)
			rec.Inc("followups")
			wantRows := [][]string{{drive.Norm([]byte(kk)), drive.Norm([]byte(v))}}
			if fo.Status() != "ok" || !drive.RowsEqual(fo.Rows, wantRows) {
				c.Violation("followup-select", cluster("select after put does not observe the write"), detail(rt.D{"followup": fq, "followup_outcome": outcomeBrief(fo)}))
				return
			}
		}
	}
	if c.Case%300 == 0 {
		rec.Sample(rt.D{"statement": query, "prior_size": len(prior), "mode": mode.String(), "storage_log": trimLog(refstore.FormatLog(log))})
	}
}

func firstCall(n *gen.Node) *gen.Node {
	var out *gen.Node
	n.Walk(func(x *gen.Node) {
		if out == nil && x.K == gen.KCall && (x.Op == "l2_distance" || x.Op == "cosine_distance") {
			out = x
		}
	})
	if out == nil {
		return n
	}
	return out
}

func isDivZero(why string) bool { return why == "division by zero" }
