package checks

import (
	"fmt"
	"kvqlverif/drive"
	"kvqlverif/gen"
	"kvqlverif/refeval"
	"kvqlverif/refstore"
	"kvqlverif/rt"
	"strconv"
	"strings"
)

// C05 — aliases are pure abbreviations and the field cache is invisible.
// Differential over {aliased, alias-expanded} x {cache on, off} x {row, batch};
// row width vs announced field names; column values vs the reference
// evaluator on that row's pair.

type c05 struct{ rt.Base }

func init() { rt.Register(&c05{}) }

func (c05) ID() string { return "C05" }

func (c05) NumCases(tier string) int {
	if tier == "thorough" {
		return 250000
	}
	return 12000
}

func (c05) Rule() string {
	return "SELECT statements with 1..4 aliased fields (text, number, Boolean, list) referenced in WHERE, in function arguments, in other fields, in ORDER BY / GROUP BY and in aggregate arguments, over stores in which accepted and rejected rows alternate; each executed as {aliased text, alias-expanded text} x {cache on, cache off} x {row, batch at a generated size}; all outcomes must agree, every row must have one column per announced field name, and columns of core-language fields must equal the reference evaluator's value on that row's pair. Non-trivial: the statement uses at least one alias and returned at least one row; distinct by (statement, store) hash."
}

func (c05) Assumptions() []string {
	return []string{"a text the checker rejects is not an 'accepted query' (aliases are resolved only as direct operands of binary operators and as call arguments): tallied, not judged", "ORDER BY / GROUP BY keep referring to the alias name in the expanded text (those clauses take names)", "reference evaluator for column values; fields outside the core language are compared differentially only"}
}

func (c05) Gates(tier string, m map[string]int64) []rt.Gate {
	return []rt.Gate{
		rt.GateMin("cache hits in cache-on runs", m, "cache_hits", 1000),
		rt.GateMin("cases with a rejected row between accepted rows", m, "rejected_between_accepted", 200),
		rt.GateMin("alias used in WHERE", m, "alias_in_where", 500),
		rt.GateMin("alias used in another field", m, "alias_in_field", 500),
		rt.GateMin("alias in ORDER BY / GROUP BY", m, "alias_in_order_group", 200),
		rt.GateMin("aggregate argument through an alias", m, "alias_in_aggregate", 50),
		rt.GateMin("columns checked against the reference", m, "ref_columns", 5000),
		rt.GateMin("statements compared in all eight configurations", m, "compared8", 2000),
		rt.GateMin("statements with a duplicated field name", m, "duplicate_alias", 50),
		rt.GateMin("ORDER BY on a field defined through another field's name", m, "order_by_field_defined_through_a_name", 200),
		rt.GateMin("field names and chunk keys with colliding concatenations", m, "colliding_name_key_concatenations", 200),
		rt.GateMin("list-valued named fields used by several distance calls", m, "vector_valued_named_field", 200),
		rt.GateMin("the key under a name in key-pinning tests", m, "key_under_a_name", 200),
	}
}

var c05Families = []string{gen.FNum, gen.FNum, gen.FMixed, gen.FWide, gen.FTies, gen.FRel, gen.FRel, gen.FTiny, gen.FFloat}

// collide: field names and keys chosen so that different (name, first key of a
// scanned chunk) pairs have the same concatenation - name "va" with key "00"
// and name "v" with key "a00" - the way C09's stores make value tuples collide.
// The first chunk is rejected by the filter, so one Batch call scans both.
func (k c05) collide(c *rt.Ctx) {
	r := c.R
	size := []int{1, 2, 3, 5, 32}[c.Case%5]
	n := []string{"v", "k", "x1", "f"}[r.Intn(4)]
	sfx := []string{"a", "b0", "_", "-"}[r.Intn(4)]
	bq := func(name string) string { // names with a dash need backquotes
		if strings.ContainsAny(name, "-") {
			return "`" + name + "`"
		}
		return name
	}
	var ps []refstore.Pair
	for i := 0; i < size; i++ {
		ps = append(ps, refstore.Pair{K: fmt.Sprintf("%02d", i), V: []string{"a", "c", "A"}[r.Intn(3)]})
	}
	for i := 0; i <= size+r.Intn(3); i++ {
		ps = append(ps, refstore.Pair{K: fmt.Sprintf("%s%02d", sfx, i), V: []string{"b", "B", "b", "x"}[r.Intn(4)]})
	}
	ps = refstore.New(ps).Pairs()
	e1 := []*gen.Node{gen.Call("upper", gen.Value()), gen.Bin("+", gen.Value(), gen.Str("!")), gen.Call("strlen", gen.Key())}[r.Intn(3)]
	e2 := gen.Call("lower", gen.Value())
	long, short := bq(n+sfx), bq(n)
	c1 := gen.Bin("!=", gen.Ref(long, e1), gen.Str("Q"))
	if e1.T == gen.TN {
		c1 = gen.Bin(">=", gen.Ref(long, e1), gen.Int(0))
	}
	c2 := gen.Bin("=", gen.Ref(short, e2), gen.Str("b"))
	stmt := &gen.Stmt{Kind: "select", Fields: []gen.Field{{E: gen.Key()}, {E: e1, Alias: long}, {E: e2, Alias: short}}, Where: gen.And(c1, c2)}
	if r.Bool() {
		stmt.Fields[1], stmt.Fields[2] = stmt.Fields[2], stmt.Fields[1]
	}
	c.Rec.Inc("colliding_name_key_concatenations")
	if c.Case%50 == 0 {
		c.Rec.Sample(rt.D{"colliding": stmt.Text(gen.Plain), "batch_size": size, "keys": len(ps)})
	}
	if hit := k.judge(c, stmt, ps, ""); hit != "" {
		k.judge(c, stmt, ps, stmt.Text(gen.Plain)) // report (the statement is already minimal)
	}
}

// namedKey: the key under a name, used by key-pinning tests with the literal on either side
// (`'abc' ^= k` asks whether the key is a prefix of the literal: it pins nothing).
func (k c05) namedKey(c *rt.Ctx) {
	r := c.R
	st := gen.NewStore(r, []string{gen.FTiny, gen.FTiny, gen.FRel, gen.FTies}[r.Intn(4)])
	if len(st.Pairs) == 0 {
		return
	}
	lits := st.KeyLiterals(r)
	lit := func() *gen.Node {
		if r.Bool() {
			p := st.Pairs[r.Intn(len(st.Pairs))].K
			if gen.Printable(p) {
				return gen.Str(p)
			}
		}
		return gen.Str(lits[r.Intn(len(lits))])
	}
	kdef := gen.Key()
	kref := func() *gen.Node { return gen.Ref("kn", kdef) }
	var w *gen.Node
	switch r.Intn(6) {
	case 0, 1:
		w = gen.Bin("^=", lit(), kref())
	case 2:
		w = gen.Bin("^=", kref(), lit())
	case 3:
		w = gen.Bin("=", lit(), kref())
	case 4:
		w = gen.Bin(">=", lit(), kref())
	default:
		w = gen.In(kref(), lit(), lit())
	}
	switch r.Intn(3) {
	case 0:
		w = gen.And(w, gen.Bin("!=", gen.Value(), gen.Str("no such value")))
	case 1:
		w = gen.Or(w, gen.Bin("=", kref(), lit()))
	}
	stmt := &gen.Stmt{Kind: "select", Fields: []gen.Field{{E: gen.Key()}, {E: kdef, Alias: "kn"}, {E: gen.Value()}}, Where: w}
	c.Rec.Inc("key_under_a_name")
	if hit := k.judge(c, stmt, st.Pairs, ""); hit != "" {
		k.judge(c, stmt, st.Pairs, stmt.Text(gen.Plain))
	}
}

// aggrMixed: an aggregate field that also uses a GROUP BY field by name outside the aggregate
// call (sum(strlen(k)) + strlen(k)): the name stands for the group's value, whatever the cache
// remembers of the last scanned pair.
func (k c05) aggrMixed(c *rt.Ctx) {
	r := c.R
	var ps []refstore.Pair
	for i, n := 0, r.Range(4, 14); i < n; i++ {
		ps = append(ps, refstore.Pair{K: fmt.Sprintf("%s%02d", []string{"a", "bb", "ccc"}[i%3], i), V: fmt.Sprint((i * 7) % 11)})
	}
	ps = refstore.New(ps).Pairs()
	var gdef *gen.Node
	switch r.Intn(3) {
	case 0:
		gdef = gen.Key()
	case 1:
		gdef = gen.Call("upper", gen.Key())
	default:
		gdef = gen.Value()
	}
	g := func() *gen.Node { return gen.Ref("g", gdef) }
	var f *gen.Node
	switch r.Intn(4) {
	case 0:
		f = gen.Bin("+", gen.Call("sum", gen.Call("strlen", g())), gen.Call("strlen", g()))
	case 1:
		f = gen.Bin("*", gen.Call("count", gen.Int(1)), gen.Call("strlen", g()))
	case 2:
		f = gen.Bin("+", gen.Call("strlen", g()), gen.Call("max", gen.Call("strlen", gen.Value())))
	default:
		f = gen.Bin("-", gen.Bin("+", gen.Call("sum", gen.Call("int", gen.Value())), gen.Call("strlen", g())), gen.Call("strlen", g()))
	}
	w := []*gen.Node{gen.Bool(true), gen.Bin(">=", gen.Call("int", gen.Value()), gen.Int(int64(r.Range(0, 5)))), gen.Bin("!=", g(), gen.Str("a00"))}[r.Intn(3)]
	stmt := &gen.Stmt{Kind: "select", Fields: []gen.Field{{E: gdef, Alias: "g"}, {E: f, Alias: "z"}}, Where: w, GroupBy: []string{"g"}}
	c.Rec.Inc("group_field_named_beside_an_aggregate")
	if hit := k.judge(c, stmt, ps, ""); hit != "" {
		k.judge(c, stmt, ps, stmt.Text(gen.Plain))
	}
}

// pointReadsAndRowLoops: a named field filtered over point reads (absent keys in between), and a
// named field used before and after a function that walks the chunk pair by pair (join, list,
// ilist, flist), over more pairs than a chunk holds.
func (k c05) pointReadsAndRowLoops(c *rt.Ctx) {
	r := c.R
	var ps []refstore.Pair
	n := r.Range(8, 20)
	for i := 0; i < n; i++ {
		ps = append(ps, refstore.Pair{K: fmt.Sprintf("k%02d", i), V: fmt.Sprint((i * 5) % 13)})
	}
	ps = refstore.New(ps).Pairs()
	ndef := gen.Call("int", gen.Value())
	nref := func() *gen.Node { return gen.Ref("n", ndef) }
	var w *gen.Node
	if r.Bool() {
		// point reads, some of them of absent keys
		items := []*gen.Node{}
		for i := 0; i < r.Range(3, 7); i++ {
			if r.Chance(1, 4) {
				items = append(items, gen.Str(fmt.Sprintf("k%02dx", r.Intn(n))))
			} else {
				items = append(items, gen.Str(fmt.Sprintf("k%02d", r.Intn(n))))
			}
		}
		w = gen.And(gen.In(gen.Key(), items...), gen.Bin([]string{"!=", ">", "<="}[r.Intn(3)], nref(), gen.Int(int64(r.Range(0, 9)))))
		c.Rec.Inc("named_field_over_point_reads")
	} else {
		loop := []*gen.Node{
			gen.Bin("!=", gen.Call("join", gen.Str("-"), gen.Key(), gen.Str("x")), gen.Str("zz")),
			gen.Bin(">=", gen.Call("len", gen.Call("list", gen.Call("strlen", gen.Key()), gen.Int(2))), gen.Int(1)),
			gen.Bin("<", gen.IndexI(gen.Call("ilist", gen.Int(1), gen.Call("strlen", gen.Key())), 0), gen.Int(5)),
		}[r.Intn(3)]
		w = gen.And(gen.And(gen.Bin(">=", nref(), gen.Int(0)), loop), gen.Bin("!=", nref(), gen.Int(int64(r.Range(0, 5)))))
		c.Rec.Inc("named_field_around_a_row_loop")
	}
	stmt := &gen.Stmt{Kind: "select", Fields: []gen.Field{{E: ndef, Alias: "n"}, {E: gen.Key()}}, Where: w}
	if hit := k.judge(c, stmt, ps, ""); hit != "" {
		k.judge(c, stmt, ps, stmt.Text(gen.Plain))
	}
}

// vectors: a list-valued field used by name in several distance calls (and in the filter):
// every use must see the field's own value.
func (k c05) vectors(c *rt.Ctx) {
	r := c.R
	st := gen.NewStore(r, gen.FNum)
	ctor := []string{"flist", "float_list", "list"}[r.Intn(3)]
	vdef := gen.Call(ctor, gen.Call("float", gen.Value()), gen.Float([]string{"4.0", "0.5", "2.5"}[r.Intn(3)]))
	v := func() *gen.Node { return gen.Ref("vec", vdef) }
	other := func() *gen.Node {
		return gen.Call("flist", gen.Float([]string{"1.0", "0.5", "3.0"}[r.Intn(3)]), gen.Float([]string{"1.0", "0.0", "2.0"}[r.Intn(3)]))
	}
	dist := func() *gen.Node {
		if r.Bool() {
			return gen.Call("l2_distance", v(), other())
		}
		return gen.Call("cosine_distance", v(), other())
	}
	stmt := &gen.Stmt{Kind: "select", Fields: []gen.Field{{E: gen.Key()}, {E: vdef, Alias: "vec"}, {E: gen.Call("l2_distance", v(), other()), Alias: "d1"}, {E: dist(), Alias: "d2"}}}
	switch r.Intn(3) {
	case 0:
		stmt.Where = gen.Bin(">", gen.Call("int", gen.Value()), gen.Int(2))
	case 1:
		stmt.Where = gen.Bin(">=", gen.Call("l2_distance", v(), other()), gen.Float("0.5"))
	default:
		stmt.Where = gen.And(gen.Bin("!=", gen.Value(), gen.Str("5")), gen.Bin(">=", dist(), gen.Float("0.0")))
	}
	if r.Chance(1, 3) {
		stmt.OrderBy = []gen.OrderItem{{Name: "d1", Desc: r.Bool()}}
	}
	c.Rec.Inc("vector_valued_named_field")
	if hit := k.judge(c, stmt, st.Pairs, ""); hit != "" {
		k.judge(c, stmt, st.Pairs, stmt.Text(gen.Plain))
	}
}

// sortKeys: a sort key that is an element of a named list, and a sort key whose name a later field
// announces again (uses of a name mean the FIRST field of that name - the rule the duplicate
// columns above rest on - so giving the later field another name changes no row).
// namesInLists (wave 15, C05-aa): a field name as a bare element of an IN list means its
// definition there as everywhere else - the named and the expanded statement are both accepted
// and agree (register B12 dates from before repair 6d03155, since which the checker resolves
// names inside lists).
func (k c05) namesInLists(c *rt.Ctx) {
	r := c.R
	var ps []refstore.Pair
	for i, n := 0, r.Range(4, 30); i < n; i++ {
		key := fmt.Sprintf("k%02d", i)
		v := []string{strings.ToUpper(key), key, "x", fmt.Sprint(i % 5), "3"}[r.Intn(5)]
		ps = append(ps, refstore.Pair{K: key, V: v})
	}
	ps = refstore.New(ps).Pairs()
	udef, ldef := gen.Call("upper", gen.Key()), gen.Call("lower", gen.Value())
	ndef, idef := gen.Call("strlen", gen.Key()), gen.Call("strlen", gen.Value())
	u, lv := func() *gen.Node { return gen.Ref("u", udef) }, func() *gen.Node { return gen.Ref("lv", ldef) }
	n, iv := func() *gen.Node { return gen.Ref("n", ndef) }, func() *gen.Node { return gen.Ref("iv", idef) }
	var stmt *gen.Stmt
	switch (c.Case / 25) % 4 {
	case 0:
		stmt = &gen.Stmt{Kind: "select", Fields: []gen.Field{{E: gen.Key()}, {E: udef, Alias: "u"}}, Where: gen.In(gen.Value(), u())}
	case 1:
		stmt = &gen.Stmt{Kind: "select", Fields: []gen.Field{{E: gen.Key()}, {E: udef, Alias: "u"}, {E: ldef, Alias: "lv"}}, Where: gen.In(gen.Key(), gen.Str("x"), lv(), u())}
	case 2:
		stmt = &gen.Stmt{Kind: "select", Fields: []gen.Field{{E: gen.Key()}, {E: ndef, Alias: "n"}, {E: idef, Alias: "iv"}}, Where: gen.In(n(), iv(), gen.Int(1))}
	default:
		stmt = &gen.Stmt{Kind: "select", Fields: []gen.Field{{E: udef, Alias: "u"}, {E: gen.Call("count", gen.Int(1)), Alias: "c"}}, Where: gen.And(gen.Bin("^=", gen.Key(), gen.Str("k")), gen.In(gen.Value(), gen.Str("3"), u())), GroupBy: []string{"u"}}
	}
	c.Rec.Inc("names_as_bare_items_of_in_lists")
	// for these shapes acceptance itself is judged: the statement with the names written out is
	// accepted, so the abbreviated one is too (elsewhere one-sided acceptance is only tallied)
	size := []int{1, 2, 3, 5, 32}[c.Case%5]
	an := drive.Run(stmt.Text(gen.Plain), refstore.New(ps), drive.Mode{Size: size, Cache: true})
	ex := drive.Run(stmt.TextExpanded(gen.Plain), refstore.New(ps), drive.Mode{Size: size, Cache: true})
	c.Rec.Eval(2)
	if an.PlanErr != nil && ex.PlanErr == nil {
		c.Violation("named-text-refused-although-its-expansion-is-accepted", "name as a bare item of an IN list / "+firstWords(an.PlanErr.Error()), func() rt.D {
			return rt.D{"named": stmt.Text(gen.Plain), "expanded": stmt.TextExpanded(gen.Plain), "error": an.PlanErr.Error()}
		})
		return
	}
	if hit := k.judge(c, stmt, ps, ""); hit != "" {
		k.judge(c, stmt, ps, stmt.Text(gen.Plain))
	}
}

func (k c05) sortKeys(c *rt.Ctx) {
	r := c.R
	var ps []refstore.Pair
	n := r.Range(4, 30)
	for i := 0; i < n; i++ {
		v := fmt.Sprint([]int{10, 9, 100, 2, 33, 7, 250, 41, 5}[r.Intn(9)] + r.Intn(3))
		if r.Chance(1, 6) {
			v = []string{"x", "zz", ""}[r.Intn(3)]
		}
		ps = append(ps, refstore.Pair{K: fmt.Sprintf("k%02d", i), V: v})
	}
	ps = refstore.New(ps).Pairs()
	if c.Case%2 == 0 {
		ctor := []string{"int_list", "ilist", "list", "float_list"}[r.Intn(4)]
		var ldef *gen.Node
		if ctor == "float_list" {
			ldef = gen.Call(ctor, gen.Call("float", gen.Value()), gen.Float("1.0"))
		} else {
			ldef = gen.Call(ctor, gen.Call("int", gen.Value()), gen.Int(1))
		}
		mdef := gen.IndexI(gen.Ref("l", ldef), 0)
		stmt := &gen.Stmt{Kind: "select", Fields: []gen.Field{{E: gen.Key()}, {E: ldef, Alias: "l"}, {E: mdef, Alias: "m"}},
			Where: gen.Call("is_int", gen.Value()), OrderBy: []gen.OrderItem{{Name: "m", Desc: r.Bool()}}}
		if r.Bool() {
			stmt.OrderBy = append(stmt.OrderBy, gen.OrderItem{Name: "key"})
		}
		c.Rec.Inc("sort_key_is_an_element_of_a_named_list")
		if hit := k.judge(c, stmt, ps, ""); hit != "" {
			k.judge(c, stmt, ps, stmt.Text(gen.Plain))
		}
		return
	}
	first := []*gen.Node{gen.Value(), gen.Call("upper", gen.Value()), gen.Call("strlen", gen.Value())}[r.Intn(3)]
	later := []*gen.Node{gen.Key(), gen.Key(), gen.Call("lower", gen.Key())}[r.Intn(3)]
	w := gen.Bin("!=", gen.Value(), gen.Str("zz"))
	if r.Bool() {
		lit := gen.Str("X")
		if first.T == gen.TN {
			lit = gen.Int(0)
		}
		w = gen.And(w, gen.Bin("!=", gen.Ref("x", first), lit))
	}
	desc := r.Chance(1, 3)
	dup := &gen.Stmt{Kind: "select", Fields: []gen.Field{{E: first, Alias: "x"}, {E: later, Alias: "x"}}, Where: w, OrderBy: []gen.OrderItem{{Name: "x", Desc: desc}}}
	ren := &gen.Stmt{Kind: "select", Fields: []gen.Field{{E: first, Alias: "x"}, {E: later, Alias: "x2"}}, Where: w, OrderBy: []gen.OrderItem{{Name: "x", Desc: desc}}}
	c.Rec.Inc("sort_key_whose_name_a_later_field_repeats")
	size := []int{1, 2, 3, 5, 32}[c.Case%5]
	ref := drive.Run(ren.Text(gen.Plain), refstore.New(ps), drive.Mode{Batch: false, Size: size, Cache: false})
	c.Rec.Eval(1)
	if ref.Status() != "ok" {
		c.Rec.NotJudged("statement with the later field renamed does not run: " + ref.Status())
		return
	}
	for _, m := range []drive.Mode{{Batch: false, Size: size, Cache: true}, {Batch: true, Size: size, Cache: true}, {Batch: false, Size: size, Cache: false}, {Batch: true, Size: size, Cache: false}} {
		o := drive.Run(dup.Text(gen.Plain), refstore.New(ps), m)
		c.Rec.Eval(1)
		if o.Status() != "ok" || !drive.RowsEqual(o.Rows, ref.Rows) {
			if o.Status() == "ok" && c03RowsAgree(ren, ref, o) == "" {
				continue
			}
			mm := m
			c.Violation("configurations-disagree", "sort key whose name a later field repeats / "+rt.Shape(dup.Text(gen.Plain)), func() rt.D {
				return rt.D{"statement": dup.Text(gen.Plain), "later_field_renamed": ren.Text(gen.Plain), "config": mm.String(), "outcome": outcomeBrief(o), "observed": drive.Trunc(o.Rows, 10), "reference(renamed,row,nocache)": drive.Trunc(ref.Rows, 10), "store": storeBrief(ps)}
			})
			return
		}
	}
}

func (k c05) Run(c *rt.Ctx) {
	r := c.R
	if c.Case%25 == 9 {
		k.sortKeys(c)
		return
	}
	if c.Case%25 == 17 {
		k.namesInLists(c)
		return
	}
	if r.Chance(1, 12) {
		k.collide(c)
		return
	}
	if r.Chance(1, 15) {
		k.vectors(c)
		return
	}
	if r.Chance(1, 15) {
		k.namedKey(c)
		return
	}
	if r.Chance(1, 15) {
		k.aggrMixed(c)
		return
	}
	if r.Chance(1, 12) {
		k.pointReadsAndRowLoops(c)
		return
	}
	st := gen.NewStore(r, c05Families[r.Intn(len(c05Families))])
	g := fullGenFor(c, st, r)
	// list(value, ..): only where every value is numeric text - over other text it is a list of
	// texts, and a number looked up in it fails, which is a data-dependent failure (the two
	// spellings of a statement need not evaluate the same operands)
	g.RawListHead = true
	for _, p := range st.Pairs {
		if _, err := strconv.ParseFloat(p.V, 64); err != nil {
			g.RawListHead = false
			break
		}
	}
	g.RefBias = r.Range(2, 4)
	// constructs that can fail at run time depending on the data (dynamically
	// typed JSON members, unequal vector lengths) are not generated: with them
	// the aliased and the expanded text may legitimately differ in *whether a
	// failing sub-expression gets evaluated* (constant folding of a constant
	// alias definition, no short-circuit in batch mode)
	g.NoJSON = true
	g.NoUnequalVec = true
	var stmt *gen.Stmt
	for try := 0; try < 8; try++ {
		stmt = g.Select(r.Range(1, 3))
		if stmt.UsesAlias() || len(stmt.GroupBy) > 0 {
			break
		}
	}
	if !stmt.Star && !stmt.IsAggregate() && len(stmt.Fields) >= 2 && r.Chance(1, 8) {
		// a second field announced under a name that is already taken: uses of
		// the name keep meaning the FIRST field; the column must still show its
		// own expression
		var named []int
		for i, f := range stmt.Fields {
			if f.Alias != "" {
				named = append(named, i)
			}
		}
		if len(named) >= 1 {
			src := named[r.Intn(len(named))]
			var e *gen.Node
			if r.Bool() {
				e = gen.Value()
			} else {
				e = gen.Call("strlen", gen.Key())
			}
			stmt.Fields = append(stmt.Fields, gen.Field{E: e, Alias: stmt.Fields[src].Alias})
			c.Rec.Inc("duplicate_alias")
		}
	}
	if !stmt.Star && !stmt.IsAggregate() && r.Chance(1, 8) {
		// a sort key defined through another field: its type (hence the comparison used by
		// ORDER BY) is only known once the name is resolved; the expanded text has no such step
		v0 := gen.Value()
		var cc *gen.Node
		if r.Bool() {
			cc = gen.Bin("+", gen.Bin("+", gen.Ref("v0", v0), gen.Str(":")), gen.Key())
		} else {
			cc = gen.Bin("+", gen.Ref("v0", v0), gen.Call("upper", gen.Key()))
		}
		stmt.Fields = append(stmt.Fields, gen.Field{E: v0, Alias: "v0"}, gen.Field{E: cc, Alias: "cc"})
		stmt.OrderBy = []gen.OrderItem{{Name: "cc", Desc: r.Bool()}}
		c.Rec.Inc("order_by_field_defined_through_a_name")
	}
	if !stmt.Star && !stmt.IsAggregate() {
		// `key` is always selected so the row's pair is known
		stmt.Fields = append([]gen.Field{{E: gen.Key()}}, stmt.Fields...)
	}
	if stmt.IsAggregate() && r.Chance(1, 2) && len(stmt.GroupBy) > 0 {
		// aggregate argument through an alias of a numeric select field
		al := "agn" + gen.Itoa(r.Intn(3))
		def := gen.Call("int", gen.Value())
		stmt.Fields = append(stmt.Fields, gen.Field{E: def, Alias: al}, gen.Field{E: gen.Call("sum", gen.Ref(al, def))})
		stmt.GroupBy = append(stmt.GroupBy, al)
	}
	hit := k.judge(c, stmt, st.Pairs, "")
	if hit == "" {
		return
	}
	probe := &rt.Ctx{Prop: c.Prop, Tier: c.Tier, Seed: c.Seed, Case: c.Case, R: c.R.Fork(), Rec: rt.NewRec(), Avoid: c.Avoid}
	small := shrinkStmt(stmt, func(s *gen.Stmt) bool { return k.judge(probe, s, st.Pairs, "") == hit }, 80)
	k.judge(c, stmt, st.Pairs, small.Text(gen.Plain))
}

func (k c05) judge(c *rt.Ctx, stmt *gen.Stmt, pairs []refstore.Pair, shrunk string) (hit string) {
	rec := c.Rec
	aliased := stmt.Text(gen.Plain)
	expanded := stmt.TextExpanded(gen.Plain)
	size := []int{1, 2, 3, 5, 32}[c.Case%5]
	type cfg struct {
		text  string
		label string
		m     drive.Mode
	}
	var cfgs []cfg
	for ti, text := range []string{aliased, expanded} {
		for _, cache := range []bool{true, false} {
			for _, batch := range []bool{false, true} {
				lb := "aliased"
				if ti == 1 {
					lb = "expanded"
				}
				cfgs = append(cfgs, cfg{text, lb, drive.Mode{Batch: batch, Size: size, Cache: cache}})
			}
		}
	}
	viol := func(oracle, what string, d func() rt.D) {
		hit = oracle
		if shrunk == "" {
			return
		}
		c.Violation(oracle, what+" / "+aliasRe.ReplaceAllString(rt.Shape(shrunk), "A"), func() rt.D {
			m := d()
			m["aliased"] = aliased
			m["expanded"] = expanded
			m["shrunk"] = shrunk
			m["store"] = storeBrief(pairs)
			return m
		})
	}
	outs := make([]*drive.Outcome, len(cfgs))
	for i, cf := range cfgs {
		outs[i] = drive.Run(cf.text, refstore.New(pairs), cf.m)
		rec.Eval(1)
		o := outs[i]
		c.Logf("%s %s: %v hits=%d", cf.label, cf.m, outcomeBrief(o), o.Hit)
		if o.Status() == "panic" || o.Status() == "runaway" {
			viol("crash", cf.label+" "+modeShort(cf.m)+" "+o.Frame, func() rt.D { return rt.D{"config": cf.label + " " + cf.m.String(), "outcome": outcomeBrief(o)} })
			return hit
		}
		if o.Status() == "ok" {
			if cf.m.Cache && shrunk == "" {
				rec.Count("cache_hits", int64(o.Hit))
			}
			for ri, row := range o.Rows {
				if len(row) != len(o.FieldNames) {
					viol("row-width", cf.label+" "+modeShort(cf.m), func() rt.D {
						return rt.D{"config": cf.label + " " + cf.m.String(), "row_index": ri, "row": row, "field_names": o.FieldNames}
					})
					return hit
				}
			}
		}
	}
	if outs[0].PlanErr != nil || outs[4].PlanErr != nil {
		if (outs[0].PlanErr == nil) != (outs[4].PlanErr == nil) {
			rec.NotJudged("only one of the aliased / expanded texts is accepted (alias resolution positions, register B12)")
		} else {
			rec.NotJudged("statement rejected")
		}
		return ""
	}
	// all eight outcomes must agree; the reference configuration is the
	// expanded text, cache off, row mode (no alias machinery involved)
	ref := outs[6]
	if ref.Status() != "ok" {
		rec.NotJudged("expanded text fails at execution: " + ref.Status())
		return ""
	}
	if shrunk == "" {
		rec.Inc("compared8")
		if stmt.UsesAlias() && len(ref.Rows) > 0 {
			rec.DistinctS(aliased + "\x00" + pairsKey(pairs))
		}
		k.tally(c, stmt, pairs, ref)
	}
	for i, cf := range cfgs {
		o := outs[i]
		if i == 6 {
			continue
		}
		if o.Status() != "ok" {
			// batch mode does not short-circuit & |; a failure there is allowed only if the same text fails in batch mode with the cache off too
			if cf.m.Batch && outs[7].Status() != "ok" && outs[3].Status() != "ok" {
				rec.NotJudged("batch iteration fails with and without aliases (no short-circuit in batch mode)")
				continue
			}
			viol("configuration-fails", cf.label+" "+modeShort(cf.m)+" fails", func() rt.D {
				return rt.D{"config": cf.label + " " + cf.m.String(), "outcome": outcomeBrief(o), "reference": outcomeBrief(ref)}
			})
			return hit
		}
		if !drive.RowsEqual(o.Rows, ref.Rows) {
			if msg := c03RowsAgree(stmt, ref, o); msg != "" {
				viol("configurations-disagree", cf.label+" "+modeShort(cf.m), func() rt.D {
					return rt.D{"config": cf.label + " " + cf.m.String(), "note": msg, "observed": drive.Trunc(o.Rows, 10), "reference(expanded,row,nocache)": drive.Trunc(ref.Rows, 10), "batches": o.BatchSizes}
				})
				return hit
			}
		}
	}
	// column values against the reference evaluator
	if !stmt.Star && !stmt.IsAggregate() && len(stmt.Fields) > 0 && stmt.Fields[0].E.K == gen.KKey {
		byKey := map[string]refstore.Pair{}
		for _, p := range pairs {
			byKey[drive.Norm([]byte(p.K))] = p
		}
		aliasedRow := outs[0]
		for _, row := range aliasedRow.Rows {
			p, ok := byKey[row[0]]
			if !ok {
				viol("unknown-row-key", "row whose key column is not a stored key", func() rt.D { return rt.D{"row": row} })
				return hit
			}
			for fi, f := range stmt.Fields {
				env := &refeval.Env{Key: p.K, Value: p.V, FloatEq: true, ShortCircuit: true}
				v, defined := env.Eval(f.E)
				if !defined {
					continue
				}
				if shrunk == "" {
					rec.Inc("ref_columns")
				}
				if v.Norm() != row[fi] {
					viol("column-differs-from-reference", "field "+gen.Shape(f.E), func() rt.D {
						return rt.D{"pair": [2]string{p.K, p.V}, "field_index": fi, "field": gen.Print(f.E), "expected": v.Norm(), "observed": row[fi]}
					})
					return hit
				}
			}
		}
	}
	if shrunk == "" && c.Case%400 == 0 {
		rec.Sample(rt.D{"aliased": aliased, "expanded": expanded, "rows": len(ref.Rows), "batch_size": size})
	}
	return ""
}

func modeShort(m drive.Mode) string {
	s := "row"
	if m.Batch {
		s = "batch"
	}
	if m.Cache {
		return s + "+cache"
	}
	return s + "-nocache"
}

// tally records what the adequacy gates need.
func (k c05) tally(c *rt.Ctx, stmt *gen.Stmt, pairs []refstore.Pair, ref *drive.Outcome) {
	rec := c.Rec
	has := func(n *gen.Node) bool {
		f := false
		if n != nil {
			n.Walk(func(x *gen.Node) {
				if x.K == gen.KRef {
					f = true
				}
			})
		}
		return f
	}
	if has(stmt.Where) {
		rec.Inc("alias_in_where")
	}
	for _, f := range stmt.Fields {
		if has(f.E) {
			rec.Inc("alias_in_field")
			if f.E.HasAggr() {
				rec.Inc("alias_in_aggregate")
			}
			break
		}
	}
	aliases := map[string]bool{}
	for _, f := range stmt.Fields {
		if f.Alias != "" {
			aliases[f.Alias] = true
		}
	}
	for _, o := range stmt.OrderBy {
		if aliases[o.Name] {
			rec.Inc("alias_in_order_group")
			break
		}
	}
	if len(stmt.GroupBy) > 0 {
		rec.Inc("alias_in_order_group")
	}
	// rejected row between accepted rows (plain selects)
	if !stmt.IsAggregate() && len(stmt.OrderBy) == 0 && !stmt.HasLim && len(ref.Rows) >= 2 && len(ref.Rows) < len(pairs) {
		acc := map[string]bool{}
		for _, r := range ref.Rows {
			acc[r[0]] = true
		}
		seenAcc, gap := false, false
		for _, p := range pairs {
			a := acc[drive.Norm([]byte(p.K))]
			if a && gap {
				rec.Inc("rejected_between_accepted")
				break
			}
			if a {
				seenAcc = true
			} else if seenAcc {
				gap = true
			}
		}
	}
}
