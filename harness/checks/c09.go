package checks

import (
	"encoding/json"
	"fmt"
	"strconv"
	"strings"

	"kvqlverif/drive"
	"kvqlverif/gen"
	"kvqlverif/refeval"
	"kvqlverif/refstore"
	"kvqlverif/rt"
)

// C09 — GROUP BY partitions by value tuples; aggregates equal their
// definitions. Reference fold over the engine's own per-row values (rows of
// `select <group exprs>, <arg exprs> where P`).

type c09 struct{ rt.Base }

func init() { rt.Register(&c09{}) }

func (c09) ID() string { return "C09" }

func (c09) NumCases(tier string) int {
	if tier == "thorough" {
		return 150000
	}
	return 8000
}

func (c09) Rule() string {
	return "aggregate SELECTs with 0..3 grouping expressions (key parts, value, aliased functions of them) over stores built so that distinct value tuples collide when concatenated (('a','bc') vs ('ab','c'), (1,23) vs (12,3)), all of count/sum/min/max/avg/group_concat/json_arrayagg over integer-valued or dyadic float-valued arguments (homogeneous per statement) with arithmetic around them, incl. the zero-row case, in row and batch mode; compared with an independent fold over the rows of the corresponding non-aggregate select. Non-trivial: at least two groups or at least two pairs in a group; distinct by (statement, store) hash."
}

func (c09) Assumptions() []string {
	return []string{"per-row values come from the engine's own plain select (per the property's observe_at); the fold is independent", "group columns are shown as text by the engine: compared after canonical rendering (%d, %f, true/false)", "quantile is excluded (approximate by design, register B10); integers and floats mixed inside one aggregate are judged only for sum/avg/min/max over raw numeric text, with their mathematical meaning (float as soon as one value is a float; min/max keep the kind of the extreme value; no integral floats in the pool, so no cross-kind ties); other mixed-kind arguments are not generated (B13)"}
}

func (c09) Gates(tier string, m map[string]int64) []rt.Gate {
	gs := []rt.Gate{
		rt.GateMin("stores with integers beyond 2^53 under collecting/comparing aggregates", m, "bigint_values", 100),
		rt.GateMin("stores with integers around 2^53 under sum/avg", m, "mid_integer_values", 100),
		rt.GateMin("float group values agreeing in six decimals", m, "close_float_group_values", 100),
		rt.GateMin("filters that use a GROUP BY field by name", m, "group_field_named_in_where", 200),
		rt.GateMin("stores whose keys contain NUL bytes (tuples colliding under a NUL separator)", m, "store_with_nul_bytes", 100),
		rt.GateMin("aggregate statements judged", m, "judged", 2000),
		rt.GateMin("stores with colliding concatenations and >=2 grouping expressions", m, "colliding_tuples", 200),
		rt.GateMin("more groups than the batch size", m, "groups_gt_batch", 100),
		rt.GateMin("no-GROUP-BY aggregates", m, "no_group_by", 300),
		rt.GateMin("zero-row aggregates", m, "zero_rows", 30),
		rt.GateMin("arithmetic around aggregates", m, "arith_around", 300),
		rt.GateMin("aggregate arguments through a GROUP BY alias", m, "alias_aggregate_arg", 100),
		rt.GateMin("aggregates over raw numeric text with mixed integers and floats", m, "implicit_text_class", 200),
	}
	for _, f := range []string{"count", "sum", "min", "max", "avg", "group_concat", "json_arrayagg"} {
		gs = append(gs, rt.GateMin("aggregate "+f+" judged", m, "aggr:"+f, 100))
	}
	return gs
}

var c09Parts = []string{"a", "ab", "b", "bc", "c", "", "1", "12", "2", "23", "3", "abc"}

// parts with NUL bytes: tuples that collide when joined with a NUL separator
var c09PartsNul = []string{"a", "a\x00b", "b", "b\x00c", "c", "\x00", "", "a\x00", "\x00b", "\x00\x00"}

// parts that begin or end with characters an implementation may join group values with
var c09PartsSep = []string{"a", "a:", ":b", "b", ":", "", "a:b", "b,", ",c", "c", "a-", "-b"}

func c09Store(r *rt.Rand, floats bool) []refstore.Pair {
	n := r.Range(0, 40)
	if r.Chance(1, 10) {
		n = r.Range(60, 120)
	}
	var ps []refstore.Pair
	ivals := []string{"0", "1", "2", "3", "5", "7", "10", "-1", "-4", "12", "100"}
	fvals := []string{"0.5", "1.5", "2.0", "-0.25", "0.25", "3.75", "10.5", "2.75", "2.25", "-0.5", "7.5", "7.25"}
	parts := c09Parts
	if r.Chance(1, 8) {
		parts = c09PartsNul
	} else if r.Chance(1, 8) {
		parts = c09PartsSep
	}
	for i := 0; i < n; i++ {
		p, q := parts[r.Intn(len(parts))], parts[r.Intn(len(parts))]
		v := ivals[r.Intn(len(ivals))]
		if floats {
			v = fvals[r.Intn(len(fvals))]
		}
		ps = append(ps, refstore.Pair{K: fmt.Sprintf("%s|%s|%03d", p, q, i), V: v})
	}
	return refstore.New(ps).Pairs()
}

type c09Agg struct {
	name string
	arg  *gen.Node
	sep  string
}

func (k c09) Run(c *rt.Ctx) {
	r := c.R
	floats := r.Chance(1, 3)
	pairs := c09Store(r, floats)
	// implicit class: aggregates over the raw numeric text of `value`, integers
	// and (never integral) floats mixed in one group
	implicit := r.Chance(1, 6)
	if implicit {
		mixed := []string{"0", "1", "2", "3", "5", "7", "-1", "-4", "12", "0.5", "1.5", "-0.25", "2.75", "-2.5", "7.25", "2.25", "-0.5"}
		for i := range pairs {
			pairs[i].V = mixed[r.Intn(len(mixed))]
		}
		c.Rec.Inc("implicit_text_class")
	}
	if len(pairs) > 0 && strings.Contains(pairs[0].K+pairs[len(pairs)-1].K+pairs[len(pairs)/2].K, "\x00") {
		c.Rec.Inc("store_with_nul_bytes")
	}
	part := func(i int64) *gen.Node { return gen.IndexI(gen.Call("split", gen.Key(), gen.Str("|")), i) }
	gpool := []*gen.Node{part(0), part(1), gen.Value(), gen.Call("upper", part(0)), gen.Call("strlen", part(1)), gen.Call("int", part(0)), gen.Call("int", part(1)),
		gen.Bin("+", part(0), part(1)), gen.Bin(">", gen.Call("strlen", part(0)), gen.Int(1)), gen.Call("strlen", gen.Value())}
	if floats {
		// float-valued grouping expressions: several groups whose shown values differ
		gpool = append(gpool, gen.Call("float", gen.Value()), gen.Bin("*", gen.Call("float", gen.Value()), gen.Float("0.5")),
			gen.Call("float", gen.Value()), gen.Bin("+", gen.Call("float", gen.Value()), gen.Float("0.25")))
	}
	ng := r.Range(0, 3)
	if r.Chance(1, 2) {
		ng = 2
	}
	closeFloats := false
	if floats && !implicit && r.Chance(1, 5) {
		// float group values that agree in their first six decimals (or are the two zeros): equal
		// values share a group, unequal ones do not, however they are rendered
		close := []string{"0.1", "0.1000001", "0.10000001", "2.5", "0", "-0", "0.0", "-0.0", "0.0000001", "0.00000012", "2.5000001", "7.25"}
		for i := range pairs {
			pairs[i].V = close[r.Intn(len(close))]
		}
		closeFloats = true
		if ng == 0 {
			ng = 1
		}
		c.Rec.Inc("close_float_group_values")
	}
	var groups []*gen.Node
	for i := 0; i < ng; i++ {
		if closeFloats && i == 0 {
			groups = append(groups, gen.Call("float", gen.Value()))
			continue
		}
		if ng >= 2 && i < 2 && r.Chance(2, 3) {
			// the colliding pair: (part0, part1) or (int(part0), int(part1))
			if r.Chance(2, 3) {
				groups = append(groups, part(int64(i)))
			} else {
				groups = append(groups, gen.Call("int", part(int64(i))))
			}
			continue
		}
		groups = append(groups, gpool[r.Intn(len(gpool))])
	}
	if len(groups) >= 1 && len(groups) < 3 && r.Chance(1, 4) {
		// a grouping expression defined through another GROUP BY field's name
		gi := r.Intn(len(groups))
		ref := gen.Ref(fmt.Sprintf("g%d", gi), groups[gi])
		again := func() *gen.Node { return gen.Ref(fmt.Sprintf("g%d", gi), groups[gi]) }
		switch groups[gi].T {
		case gen.TN:
			groups = append(groups, gen.Bin("*", ref, gen.Int(2)))
			c.Rec.Inc("group_field_defined_through_a_name")
			if c.Case%2 == 1 {
				// the name read again and again inside one grouping expression, as the left operand
				// of an operator first: every read sees the field's own value
				// (the other operand differs from pair to pair: a wrong second read merges groups)
				per := gen.Call("int", gen.Value())
				if floats || implicit {
					per = gen.Call("float", gen.Value())
				}
				groups = append(groups, gen.Bin("-", gen.Bin("+", again(), per), again()))
				c.Rec.Inc("group_field_name_read_repeatedly")
			}
		case gen.TS:
			groups = append(groups, gen.Bin("+", ref, gen.Str("x")))
			c.Rec.Inc("group_field_defined_through_a_name")
		}
	}
	// numeric argument expressions
	var numArg func() *gen.Node
	if floats {
		numArg = func() *gen.Node {
			switch r.Intn(3) {
			case 0:
				return gen.Call("float", gen.Value())
			case 1:
				return gen.Bin("*", gen.Call("float", gen.Value()), gen.Float("2.0"))
			}
			return gen.Bin("+", gen.Call("float", gen.Value()), gen.Float("0.5"))
		}
	} else {
		numArg = func() *gen.Node {
			switch r.Intn(5) {
			case 4:
				// a list length (the one scalar function with a plain machine-int result)
				return gen.Call("len", gen.Call("split", gen.Key(), gen.Str([]string{"a", "|", "b"}[r.Intn(3)])))
			case 0:
				return gen.Call("int", gen.Value())
			case 1:
				return gen.Call("strlen", gen.Key())
			case 2:
				return gen.Bin("*", gen.Call("int", gen.Value()), gen.Int(3))
			}
			return gen.Bin("-", gen.Call("int", gen.Value()), gen.Call("strlen", part(0)))
		}
	}
	if implicit {
		numArg = func() *gen.Node { return gen.Value() }
	}
	// aggregate arguments through the alias of a numeric GROUP BY field
	var aliasArgs []*gen.Node
	for i, g := range groups {
		if g.T == gen.TN && !implicit {
			aliasArgs = append(aliasArgs, gen.Ref(fmt.Sprintf("g%d", i), g))
		}
	}
	if len(aliasArgs) > 0 && r.Chance(1, 2) {
		base := numArg
		numArg = func() *gen.Node {
			if r.Bool() {
				c.Rec.Inc("alias_aggregate_arg")
				return aliasArgs[r.Intn(len(aliasArgs))]
			}
			return base()
		}
	}
	textArg := func() *gen.Node {
		switch r.Intn(3) {
		case 0:
			return gen.Value()
		case 1:
			return part(2)
		}
		return gen.Call("upper", part(0))
	}
	bigints := false
	if !floats && !implicit && r.Chance(1, 12) {
		// integers beyond 2^53 and at the ends of the int64 range: an aggregate that collects
		// or compares them must keep them exact (no sums: they would overflow)
		big := []string{"9007199254740993", "9223372036854775807", "-9223372036854775808", "9007199254740992", "-9007199254740993", "4611686018427387905"}
		for i := range pairs {
			if i%3 != 1 {
				pairs[i].V = big[r.Intn(len(big))]
			}
		}
		numArg = func() *gen.Node { return gen.Call("int", gen.Value()) }
		bigints = true
		c.Rec.Inc("bigint_values")
	}
	noArith := false
	if !floats && !implicit && !bigints && r.Chance(1, 12) {
		// integers around 2^53 whose sums still fit: sum is exact and avg is the exact sum divided
		// once, not a running float (2^53+1 three times: the float sum has lost 3 by then)
		mid := []string{"9007199254740993", "9007199254740995", "4503599627370497", "9007199254740991", "-9007199254740993", "3", "1"}
		for i := range pairs {
			if i%4 != 2 {
				pairs[i].V = mid[r.Intn(len(mid))]
			}
		}
		numArg = func() *gen.Node { return gen.Call("int", gen.Value()) }
		c.Rec.Inc("mid_integer_values")
		noArith = true // beyond 2^53 a re-associated float addition rounds differently (C04 restricts itself to exact values too)
	}
	var aggs []c09Agg
	na := r.Range(1, 4)
	for i := 0; i < na; i++ {
		switch r.Intn(9) {
		case 0:
			aggs = append(aggs, c09Agg{name: "count", arg: gen.Int(1)})
		case 1:
			aggs = append(aggs, c09Agg{name: "count", arg: textArg()})
		case 2:
			aggs = append(aggs, c09Agg{name: "sum", arg: numArg()})
		case 3:
			aggs = append(aggs, c09Agg{name: "min", arg: numArg()})
		case 4:
			aggs = append(aggs, c09Agg{name: "max", arg: numArg()})
		case 5:
			aggs = append(aggs, c09Agg{name: "avg", arg: numArg()})
		case 6:
			aggs = append(aggs, c09Agg{name: "group_concat", arg: textArg(), sep: []string{",", "-", "", "ab"}[r.Intn(4)]})
		case 7:
			if r.Bool() {
				aggs = append(aggs, c09Agg{name: "json_arrayagg", arg: textArg()})
			} else {
				aggs = append(aggs, c09Agg{name: "json_arrayagg", arg: numArg()})
			}
		default:
			aggs = append(aggs, c09Agg{name: "group_concat", arg: numArg(), sep: ","})
		}
	}
	if closeFloats {
		// how a negative zero is written inside a concatenation is not documented: the collecting
		// aggregates get text arguments here
		for i := range aggs {
			if aggs[i].name == "group_concat" || aggs[i].name == "json_arrayagg" {
				aggs[i].arg = textArg()
				if aggs[i].sep == "" && aggs[i].name == "group_concat" {
					aggs[i].sep = ","
				}
			}
		}
	}
	if bigints {
		for i := range aggs {
			if aggs[i].name == "sum" || aggs[i].name == "avg" {
				aggs[i] = c09Agg{name: "json_arrayagg", arg: numArg()}
			}
		}
	}
	// aggregate select
	stmt := &gen.Stmt{Kind: "select"}
	plain := &gen.Stmt{Kind: "select"}
	type col struct {
		isGroup bool
		gi      int
		tree    *gen.Node // aggregate field expression (may wrap aggregates in arithmetic)
		aggIdx  []int     // indexes into aggs used by tree, in order of the placeholders
	}
	var cols []col
	for i, g := range groups {
		al := fmt.Sprintf("g%d", i)
		stmt.Fields = append(stmt.Fields, gen.Field{E: g, Alias: al})
		stmt.GroupBy = append(stmt.GroupBy, al)
		plain.Fields = append(plain.Fields, gen.Field{E: g})
		cols = append(cols, col{isGroup: true, gi: i})
	}
	mk := func(a c09Agg) *gen.Node {
		if a.name == "group_concat" {
			return gen.Call(a.name, a.arg, gen.Str(a.sep))
		}
		return gen.Call(a.name, a.arg)
	}
	arith := false
	for i := 0; i < len(aggs); i++ {
		a := aggs[i]
		plain.Fields = append(plain.Fields, gen.Field{E: a.arg.Expand()})
		tree := mk(a)
		used := []int{i}
		numeric := a.name != "group_concat" && a.name != "json_arrayagg"
		if numeric && !noArith && !bigints && !closeFloats && r.Chance(1, 3) {
			arith = true
			shape := r.Intn(8)
			if a.name == "avg" {
				// a quotient is not exactly representable: a chain the rewrite may legally regroup
				// (x + 1 + 2 -> x + 3) rounds differently, C04 keeps to exact values for that reason
				shape = r.Intn(3)
			}
			if c.Case%3 == 1 && len(groups) > 0 && !implicit {
				shape = 8
			}
			switch shape {
			case 8: // a GROUP BY field used by name next to the aggregate: each row shows its own group's value
				gi := c.Case / 3 % len(groups)
				gref := gen.Ref(fmt.Sprintf("g%d", gi), groups[gi])
				switch groups[gi].T {
				case gen.TN:
					tree = gen.Bin("+", tree, gref)
					c.Rec.Inc("group_field_name_beside_the_aggregate")
				case gen.TS:
					tree = gen.Bin("+", tree, gen.Call("strlen", gref))
					c.Rec.Inc("group_field_name_beside_the_aggregate")
				default:
					tree = gen.Bin("*", tree, gen.Int(10))
				}
			case 3: // constant sub-expressions next to the aggregate, joined by other operators than their own
				tree = gen.Bin("+", gen.Bin("*", tree, gen.Bin("+", gen.Int(1), gen.Int(1))), gen.Int(1))
			case 4:
				tree = gen.Bin("+", gen.Bin("-", tree, gen.Bin("+", gen.Int(1), gen.Int(2))), gen.Int(3))
			case 5:
				tree = gen.Bin("*", gen.Bin("+", tree, gen.Bin("*", gen.Int(2), gen.Int(3))), gen.Int(4))
			case 6:
				tree = gen.Bin("+", gen.Bin("+", tree, gen.Int(1)), gen.Int(2))
			case 7:
				tree = gen.Bin("+", gen.Bin("+", tree, gen.Bin("+", gen.Int(1), gen.Int(2))), gen.Int(3))
			case 0:
				tree = gen.Bin("*", tree, gen.Int(10))
			case 1:
				tree = gen.Bin("+", gen.Int(1), tree)
			default:
				if i+1 < len(aggs) && aggs[i+1].name != "group_concat" && aggs[i+1].name != "json_arrayagg" {
					tree = gen.Bin("-", tree, mk(aggs[i+1]))
					plain.Fields = append(plain.Fields, gen.Field{E: aggs[i+1].arg.Expand()})
					used = append(used, i+1)
					i++
				}
			}
		}
		stmt.Fields = append(stmt.Fields, gen.Field{E: tree})
		cols = append(cols, col{tree: tree, aggIdx: used})
	}
	if r.Chance(1, 3) && len(stmt.Fields) > 1 {
		// move one field to another place (cols follow)
		i, j := r.Intn(len(stmt.Fields)), r.Intn(len(stmt.Fields))
		stmt.Fields[i], stmt.Fields[j] = stmt.Fields[j], stmt.Fields[i]
		cols[i], cols[j] = cols[j], cols[i]
	}
	var where *gen.Node
	switch r.Intn(6) {
	case 5:
		// the filter uses a GROUP BY field by name and drops some pairs in between
		drop := []string{"0", "1", "2", "5"}[r.Intn(4)]
		where = gen.Bin("!=", gen.Value(), gen.Str(drop))
		if !floats && !implicit && r.Bool() {
			// every second pair (in key order) is dropped: the rows that pass a scan window
			// are then as many as half a window, and two windows' worth as many as one window
			for i := range pairs {
				if i%2 == 1 {
					pairs[i].V = drop
				} else if pairs[i].V == drop {
					pairs[i].V = "7"
				}
			}
		}
		if len(groups) > 0 {
			gi := r.Intn(len(groups))
			ref := gen.Ref(fmt.Sprintf("g%d", gi), groups[gi])
			var cond *gen.Node
			switch groups[gi].T {
			case gen.TN:
				cond = gen.Bin(">=", ref, gen.Int(-100000))
				if r.Bool() { // selective: the named field decides, pair by pair, who reaches the groups
					cond = gen.Bin("!=", ref, gen.Int(int64(r.Range(0, 3))))
				}
			case gen.TS:
				cond = gen.Bin("!=", ref, gen.Str("no such group"))
				if r.Bool() {
					cond = gen.Bin("!=", ref, gen.Str([]string{"a", "ab", "b", "1", "12", "A", "AB", ""}[r.Intn(8)]))
				}
			}
			if cond != nil {
				if r.Bool() {
					where = gen.And(cond, where)
				} else {
					where = gen.And(where, cond)
				}
				c.Rec.Inc("group_field_named_in_where")
			}
		}
	case 0:
		where = gen.Bool(true)
	case 1:
		where = gen.Bin("^=", gen.Key(), gen.Str([]string{"a", "ab", "1", ""}[r.Intn(4)]))
	case 2:
		where = gen.Bin("!=", gen.Value(), gen.Str("0"))
	case 3:
		where = gen.Bin("=", gen.Key(), gen.Str("nothing-matches"))
	default:
		where = gen.Bin(">", gen.Call("strlen", part(1)), gen.Int(0))
	}
	stmt.Where = where
	plain.Where = where
	mode := drive.Mode{Batch: r.Bool(), Size: pickBatch(c), Cache: r.Chance(3, 4)}
	q := stmt.Text(gen.Plain)
	pq := plain.TextExpanded(gen.Plain) // the plain select has no named fields: names are written out
	if len(plain.Fields) == 0 {
		return
	}

	rec := c.Rec
	ao := drive.Run(q, refstore.New(pairs), mode)
	po := drive.Run(pq, refstore.New(pairs), mode)
	rec.Eval(2)
	c.Logf("aggregate: %s\nplain:     %s\nstore: %v\nmode %s\naggregate rows: %v\nplain rows: %v", q, pq, storeBrief(pairs), mode, outcomeBrief(ao), drive.Trunc(po.Rows, 50))
	var names []string
	for _, a := range aggs {
		names = append(names, a.name)
	}
	cluster := func(what string) string {
		return fmt.Sprintf("%d group exprs / %s / %s", len(groups), strings.Join(names, ","), what)
	}
	detail := func(extra rt.D) func() rt.D {
		return func() rt.D {
			d := rt.D{"aggregate": q, "plain": pq, "store": storeBrief(pairs), "mode": mode.String(), "aggregate_rows": drive.Trunc(ao.Rows, 14)}
			for kk, v := range extra {
				d[kk] = v
			}
			return d
		}
	}
	if ao.Status() == "panic" || ao.Status() == "runaway" {
		c.Violation("crash", cluster(ao.Frame), func() rt.D { return rt.D{"aggregate": q, "store": storeBrief(pairs), "outcome": outcomeBrief(ao)} })
		return
	}
	if po.Status() != "ok" {
		rec.NotJudged("the plain select does not complete: " + po.Status())
		return
	}
	if ao.Status() != "ok" {
		if implicit {
			rec.NotJudged("aggregate over raw numeric text refused (implicit conversion is not documented)")
			return
		}
		c.Violation("aggregate-statement-fails", cluster(firstWords(ao.ErrText())), func() rt.D { return rt.D{"aggregate": q, "store": storeBrief(pairs), "outcome": outcomeBrief(ao)} })
		return
	}
	// fold: plain row layout = groups..., then args in the order appended
	type group struct {
		key  []string
		rows [][]string
	}
	var order []*group
	byKey := map[string]*group{}
	for _, row := range po.Rows {
		gk := drive.RowKey(row[:len(groups)])
		g, ok := byKey[gk]
		if !ok {
			g = &group{key: row[:len(groups)]}
			byKey[gk] = g
			order = append(order, g)
		}
		g.rows = append(g.rows, row[len(groups):])
	}
	rec.Inc("judged")
	for _, a := range aggs {
		rec.Inc("aggr:" + a.name)
	}
	if arith {
		rec.Inc("arith_around")
	}
	if len(groups) == 0 {
		rec.Inc("no_group_by")
	}
	if len(po.Rows) == 0 {
		rec.Inc("zero_rows")
	}
	if len(order) > mode.Size {
		rec.Inc("groups_gt_batch")
	}
	if len(groups) >= 2 {
		seen := map[string]string{}
		for _, g := range order {
			cat := ""
			for _, kv := range g.key {
				cat += c09Render(kv)
			}
			if prev, ok := seen[cat]; ok && prev != drive.RowKey(g.key) {
				rec.Inc("colliding_tuples")
				break
			}
			seen[cat] = drive.RowKey(g.key)
		}
	}
	if len(order) >= 2 || (len(order) == 1 && len(order[0].rows) >= 2) {
		rec.DistinctS(q + "\x00" + pairsKey(pairs))
	}
	if len(ao.Rows) != len(order) {
		c.Violation("group-count", sprintf("%d group exprs / %s groups than distinct tuples", len(groups), moreFewer(len(ao.Rows), len(order))), detail(rt.D{"expected_groups": len(order), "observed_groups": len(ao.Rows), "expected_group_keys": groupKeys(order, func(g *group) []string { return g.key })}))
		return
	}
	// argument column offsets in the plain rows
	argCol := map[int]int{}
	{
		ci := 0
		// plain.Fields after the groups were appended in aggs order (with the pair case appending i+1 directly after i)
		for i := range aggs {
			argCol[i] = ci
			ci++
		}
	}
	for gi, g := range order {
		row := ao.Rows[gi]
		for ci, cl := range cols {
			if cl.isGroup {
				want := "T" + strconv.Quote(c09Render(g.key[cl.gi]))
				if row[ci] != want && !c09SameFloatText(row[ci], want) {
					c.Violation("group-column", cluster("selected GROUP BY expression does not show the group's value (or groups are out of first-appearance order)"), detail(rt.D{"group_index": gi, "column": ci, "expected": want, "observed": row[ci]}))
					return
				}
				continue
			}
			// compute each aggregate the tree uses
			vals := make([]refeval.Val, len(cl.aggIdx))
			for vi, ai := range cl.aggIdx {
				v, ok := c09Fold(aggs[ai], g.rows, argCol[ai])
				if !ok {
					rec.NotJudged("aggregate argument values are not homogeneous integers/floats/text")
					return
				}
				vals[vi] = v
			}
			refs := map[string]refeval.Val{}
			for ki, kv := range g.key {
				if v, ok := c09Num(kv); ok && !strings.HasPrefix(kv, "T") {
					refs[fmt.Sprintf("g%d", ki)] = v
				} else if strings.HasPrefix(kv, "T") {
					refs[fmt.Sprintf("g%d", ki)] = refeval.Text(c09Render(kv))
				}
			}
			want, ok := c09EvalAround(cl.tree, vals, refs)
			if !ok {
				rec.NotJudged("arithmetic around the aggregate is outside the reference")
				return
			}
			if !c09Same(aggs[cl.aggIdx[0]].name, want, row[ci]) {
				c.Violation("aggregate-value", cluster(aggs[cl.aggIdx[0]].name+" differs from its definition"), detail(rt.D{"group_index": gi, "group_key": g.key, "column": ci, "field": gen.Print(cl.tree), "expected": want.Norm(), "observed": row[ci], "group_rows": drive.Trunc(g.rows, 12)}))
				return
			}
		}
	}
	if c.Case%300 == 0 {
		rec.Sample(rt.D{"aggregate": q, "plain": pq, "groups": len(order), "pairs": len(pairs), "mode": mode.String()})
	}
}

// c09SameFloatText: two shown float group values that are the same number (-0.000000 and
// 0.000000: the group of the two zeros shows whichever came first)
func c09SameFloatText(a, b string) bool {
	ua, err1 := strconv.Unquote(strings.TrimPrefix(a, "T"))
	ub, err2 := strconv.Unquote(strings.TrimPrefix(b, "T"))
	if err1 != nil || err2 != nil || !strings.Contains(ua, ".") || !strings.Contains(ub, ".") {
		return false
	}
	fa, e1 := strconv.ParseFloat(ua, 64)
	fb, e2 := strconv.ParseFloat(ub, 64)
	return e1 == nil && e2 == nil && fa == fb && fa == 0
}

func moreFewer(a, b int) string {
	if a > b {
		return "more"
	}
	return "fewer"
}

func groupKeys[G any](gs []*G, f func(*G) []string) [][]string {
	var out [][]string
	for i, g := range gs {
		if i >= 12 {
			break
		}
		out = append(out, f(g))
	}
	return out
}

// c09Render renders a normalised value the way the engine shows group columns.
func c09Render(n string) string {
	if len(n) == 0 {
		return ""
	}
	switch n[0] {
	case 'T':
		s, _ := strconv.Unquote(n[1:])
		return s
	case 'I':
		return n[1:]
	case 'F':
		f, _ := strconv.ParseFloat(n[1:], 64)
		return fmt.Sprintf("%f", f)
	case 'B':
		return n[1:]
	case 'N':
		return ""
	}
	return n
}

func c09Num(n string) (refeval.Val, bool) {
	if len(n) < 2 {
		return refeval.Val{}, false
	}
	switch n[0] {
	case 'I':
		v, err := strconv.ParseInt(n[1:], 10, 64)
		return refeval.IntV(v), err == nil
	case 'F':
		v, err := strconv.ParseFloat(n[1:], 64)
		return refeval.FloatV(v), err == nil
	case 'T':
		// raw numeric text (implicit class)
		t := c09Render(n)
		if v, ok := refeval.PlainInt(t); ok {
			return refeval.IntV(v), true
		}
		if v, ok := refeval.PlainFloat(t); ok {
			return refeval.FloatV(v), true
		}
	}
	return refeval.Val{}, false
}

// c09Fold computes one aggregate over the group's rows (column col).
func c09Fold(a c09Agg, rows [][]string, col int) (refeval.Val, bool) {
	switch a.name {
	case "count":
		return refeval.IntV(int64(len(rows))), true
	case "group_concat":
		parts := make([]string, len(rows))
		for i, r := range rows {
			parts[i] = c09Render(r[col])
		}
		return refeval.Text(strings.Join(parts, a.sep)), true
	case "json_arrayagg":
		var items []refeval.Val
		for _, r := range rows {
			n := r[col]
			switch n[0] {
			case 'T':
				items = append(items, refeval.Text(c09Render(n)))
			default:
				v, ok := c09Num(n)
				if !ok {
					return refeval.Val{}, false
				}
				items = append(items, v)
			}
		}
		return refeval.ListV(items), true
	}
	var nums []refeval.Val
	allInt, allFloat := true, true
	for _, r := range rows {
		v, ok := c09Num(r[col])
		if !ok {
			return refeval.Val{}, false
		}
		if v.K == refeval.VInt {
			allFloat = false
		} else {
			allInt = false
		}
		nums = append(nums, v)
	}
	if len(nums) == 0 {
		return refeval.Val{}, false
	}
	if !allInt && !allFloat {
		// mixed integers and floats (implicit class): exact mathematics, the
		// result is a float as soon as one value is; min/max keep the kind of
		// the extreme value (the pool has no integral floats, so no cross-kind ties)
		f := func(v refeval.Val) float64 {
			if v.K == refeval.VInt {
				return float64(v.I)
			}
			return v.F
		}
		switch a.name {
		case "sum", "avg":
			s := 0.0
			for _, v := range nums {
				s += f(v)
			}
			if a.name == "avg" {
				return refeval.FloatV(s / float64(len(nums))), true
			}
			return refeval.FloatV(s), true
		case "min", "max":
			best := nums[0]
			for _, v := range nums[1:] {
				if (a.name == "min" && f(v) < f(best)) || (a.name == "max" && f(v) > f(best)) {
					best = v
				}
			}
			return best, true
		}
		return refeval.Val{}, false
	}
	switch a.name {
	case "sum", "avg":
		if allInt {
			var s int64
			for _, v := range nums {
				s += v.I
			}
			if a.name == "avg" {
				return refeval.FloatV(float64(s) / float64(len(nums))), true
			}
			return refeval.IntV(s), true
		}
		s := 0.0
		for _, v := range nums {
			s += v.F
		}
		if a.name == "avg" {
			return refeval.FloatV(s / float64(len(nums))), true
		}
		return refeval.FloatV(s), true
	case "min", "max":
		best := nums[0]
		for _, v := range nums[1:] {
			less := (allInt && v.I < best.I) || (allFloat && v.F < best.F)
			more := (allInt && v.I > best.I) || (allFloat && v.F > best.F)
			if (a.name == "min" && less) || (a.name == "max" && more) {
				best = v
			}
		}
		return best, true
	}
	return refeval.Val{}, false
}

// c09EvalAround evaluates the field tree with each aggregate call replaced by
// its folded value (in order of appearance).
func c09EvalAround(tree *gen.Node, vals []refeval.Val, refs map[string]refeval.Val) (refeval.Val, bool) {
	i := 0
	missing := false
	var sub func(n *gen.Node) *gen.Node
	sub = func(n *gen.Node) *gen.Node {
		if n.K == gen.KRef {
			v, ok := refs[n.Op]
			if !ok {
				missing = true
				return gen.Int(0)
			}
			switch v.K {
			case refeval.VInt:
				return gen.Int(v.I)
			case refeval.VFloat:
				return &gen.Node{K: gen.KFloat, T: gen.TN, F: v.F, S: "?"}
			case refeval.VText:
				return gen.Str(v.S)
			}
			missing = true
			return gen.Int(0)
		}
		if n.K == gen.KCall && gen.IsAggr(n.Op) {
			v := vals[i]
			i++
			switch v.K {
			case refeval.VInt:
				return gen.Int(v.I)
			case refeval.VFloat:
				return &gen.Node{K: gen.KFloat, T: gen.TN, F: v.F, S: "?"}
			case refeval.VText:
				return gen.Str(v.S)
			}
			return &gen.Node{K: gen.KCall, Op: "__list", T: gen.TL}
		}
		cp := *n
		cp.A = make([]*gen.Node, len(n.A))
		for j, a := range n.A {
			cp.A[j] = sub(a)
		}
		return &cp
	}
	if tree.K == gen.KCall && gen.IsAggr(tree.Op) {
		return vals[0], true
	}
	env := &refeval.Env{}
	t := sub(tree)
	if missing {
		return refeval.Val{}, false
	}
	return env.Eval(t)
}

func c09Same(aggName string, want refeval.Val, got string) bool {
	if aggName == "json_arrayagg" && want.K == refeval.VList {
		// compare as parsed JSON
		s := c09Render(got)
		var arr []any
		dec := json.NewDecoder(strings.NewReader(s))
		dec.UseNumber() // integers are compared exactly, not through float64
		if err := dec.Decode(&arr); err != nil || len(arr) != len(want.L) {
			return false
		}
		for i, e := range want.L {
			switch e.K {
			case refeval.VText:
				if x, ok := arr[i].(string); !ok || x != e.S {
					return false
				}
			case refeval.VInt:
				x, ok := arr[i].(json.Number)
				if !ok {
					return false
				}
				if n, err := x.Int64(); err != nil || n != e.I {
					// an integer may be shown in float notation only if nothing is lost
					f, ferr := x.Float64()
					if ferr != nil || float64(e.I) != f || e.I > 1<<53 || e.I < -(1<<53) {
						return false
					}
				}
			case refeval.VFloat:
				x, ok := arr[i].(json.Number)
				if !ok {
					return false
				}
				if f, err := x.Float64(); err != nil || f != e.F {
					return false
				}
			}
		}
		return true
	}
	return want.Norm() == got
}
