// Package refeval is the reference model: a small evaluator for the documented
// core language over the harness's own trees (gen.Node), written from
// README.md / spec.md and sharing no code with kvql. "Undefined" (ok=false)
// marks what the documentation does not settle; monitors do not judge there.
package refeval

import (
	"bytes"
	"encoding/json"
	"math"
	"math/big"
	"regexp"
	"sort"
	"strconv"
	"strings"

	"kvqlverif/gen"
)

type VK byte

const (
	VText VK = iota + 1
	VInt
	VFloat
	VBool
	VList
	VJson // any decoded JSON value that is not a plain scalar we re-type
)

type Val struct {
	K VK
	S string
	I int64
	F float64
	B bool
	L []Val
	J any
}

func Text(s string) Val    { return Val{K: VText, S: s} }
func IntV(i int64) Val     { return Val{K: VInt, I: i} }
func FloatV(f float64) Val { return Val{K: VFloat, F: f} }
func BoolV(b bool) Val     { return Val{K: VBool, B: b} }
func ListV(l []Val) Val    { return Val{K: VList, L: l} }

// Norm renders a Val in the same canonical form as drive.Norm renders engine
// columns, so the two can be compared as strings.
func (v Val) Norm() string {
	switch v.K {
	case VText:
		return "T" + strconv.Quote(v.S)
	case VInt:
		return "I" + strconv.FormatInt(v.I, 10)
	case VFloat:
		if math.IsNaN(v.F) {
			return "FNaN"
		}
		if v.F == 0 {
			return "F0"
		}
		return "F" + strconv.FormatFloat(v.F, 'g', -1, 64)
	case VBool:
		if v.B {
			return "Btrue"
		}
		return "Bfalse"
	case VList:
		parts := make([]string, len(v.L))
		for i, e := range v.L {
			parts[i] = e.Norm()
		}
		return "L[" + strings.Join(parts, ",") + "]"
	case VJson:
		return normJSON(v.J)
	}
	return "?"
}

func normJSON(j any) string {
	switch x := j.(type) {
	case nil:
		return "N"
	case string:
		return "T" + strconv.Quote(x)
	case float64:
		return "F" + strconv.FormatFloat(x, 'g', -1, 64)
	case bool:
		if x {
			return "Btrue"
		}
		return "Bfalse"
	case []any:
		parts := make([]string, len(x))
		for i, e := range x {
			parts[i] = normJSON(e)
		}
		return "L[" + strings.Join(parts, ",") + "]"
	case map[string]any:
		keys := make([]string, 0, len(x))
		for k := range x {
			keys = append(keys, k)
		}
		sort.Strings(keys)
		parts := make([]string, len(keys))
		for i, k := range keys {
			parts[i] = strconv.Quote(k) + ":" + normJSON(x[k])
		}
		return "M{" + strings.Join(parts, ",") + "}"
	}
	return "?"
}

// Env is an evaluation context.
type Env struct {
	Key, Value   string
	ShortCircuit bool // left-to-right short-circuit of and/or (otherwise strict: both operands must be defined)
	// FloatEq: judge = / != on float operands (numeric equality). Off while the
	// engine's behaviour there is a listed finding.
	FloatEq bool
	Why     string // reason of the first undefinedness (diagnostics)
}

func (e *Env) undef(why string) (Val, bool) {
	if e.Why == "" {
		e.Why = why
	}
	return Val{}, false
}

var reCache = map[string]*regexp.Regexp{}

func compileRe(p string) *regexp.Regexp {
	if r, ok := reCache[p]; ok {
		return r
	}
	r, err := regexp.Compile(p)
	if err != nil {
		r = nil
	}
	reCache[p] = r
	return r
}

// ---- text <-> number readers (own implementation)

// PlainInt: [-]d{1,18}
func PlainInt(s string) (int64, bool) {
	t := s
	neg := false
	if strings.HasPrefix(t, "-") {
		neg = true
		t = t[1:]
	}
	for len(t) > 18 && t[0] == '0' {
		t = t[1:] // leading zeros do not make a decimal integer long
	}
	if len(t) == 0 || len(t) > 18 {
		return 0, false
	}
	var v int64
	for i := 0; i < len(t); i++ {
		if t[i] < '0' || t[i] > '9' {
			return 0, false
		}
		v = v*10 + int64(t[i]-'0')
	}
	if neg {
		v = -v
	}
	return v, true
}

// PlainFloat: [-]d+.d+ (at most 30 characters), correctly rounded via big.Rat.
func PlainFloat(s string) (float64, bool) {
	t := s
	if strings.HasPrefix(t, "-") {
		t = t[1:]
	}
	dot := strings.IndexByte(t, '.')
	if dot <= 0 || dot == len(t)-1 || len(t) > 30 {
		return 0, false
	}
	for i := 0; i < len(t); i++ {
		if i == dot {
			continue
		}
		if t[i] < '0' || t[i] > '9' {
			return 0, false
		}
	}
	r, ok := new(big.Rat).SetString(s)
	if !ok {
		return 0, false
	}
	f, _ := r.Float64()
	return f, true
}

// NumClass classifies a text for is_int / is_float / int / float:
// 'i' plain integer, 'f' plain decimal, 'n' clearly not a number,
// '?' murky (the documentation does not say).
func NumClass(s string) byte {
	if _, ok := PlainInt(s); ok {
		return 'i'
	}
	if _, ok := PlainFloat(s); ok {
		return 'f'
	}
	if s == "" {
		return 'n'
	}
	for i := 0; i < len(s); i++ {
		if strings.IndexByte("0123456789+-._eExXpPiInNfFaAtTyY", s[i]) < 0 {
			return 'n'
		}
	}
	return '?'
}

func isASCII(s string) bool {
	for i := 0; i < len(s); i++ {
		if s[i] >= 0x80 {
			return false
		}
	}
	return true
}

func asciiUpper(s string) string {
	b := []byte(s)
	for i, c := range b {
		if c >= 'a' && c <= 'z' {
			b[i] = c - 32
		}
	}
	return string(b)
}

func asciiLower(s string) string {
	b := []byte(s)
	for i, c := range b {
		if c >= 'A' && c <= 'Z' {
			b[i] = c + 32
		}
	}
	return string(b)
}

func num(v Val) (float64, bool) {
	switch v.K {
	case VInt:
		return float64(v.I), true
	case VFloat:
		return v.F, true
	}
	return 0, false
}

// cmpVals orders two values of the same family: -1, 0, 1.
func cmpVals(a, b Val) (int, bool) {
	if a.K == VText && b.K == VText {
		return bytes.Compare([]byte(a.S), []byte(b.S)), true
	}
	if a.K == VInt && b.K == VInt {
		switch {
		case a.I < b.I:
			return -1, true
		case a.I > b.I:
			return 1, true
		}
		return 0, true
	}
	af, aok := num(a)
	bf, bok := num(b)
	if aok && bok {
		switch {
		case af < bf:
			return -1, true
		case af > bf:
			return 1, true
		case af == bf:
			return 0, true
		}
		return 0, false // NaN
	}
	return 0, false
}

func (e *Env) equal(a, b Val) (bool, bool) {
	switch {
	case a.K == VText && b.K == VText:
		return a.S == b.S, true
	case a.K == VInt && b.K == VInt:
		return a.I == b.I, true
	case a.K == VBool && b.K == VBool:
		return a.B == b.B, true
	case (a.K == VFloat || b.K == VFloat) && e.FloatEq:
		c, ok := cmpVals(a, b)
		return c == 0, ok
	}
	return false, false
}

// Eval evaluates n on the pair in e.
func (e *Env) Eval(n *gen.Node) (Val, bool) {
	switch n.K {
	case gen.KKey:
		return Text(e.Key), true
	case gen.KValue:
		return Text(e.Value), true
	case gen.KStr:
		return Text(n.S), true
	case gen.KInt:
		return IntV(n.I), true
	case gen.KFloat:
		return FloatV(n.F), true
	case gen.KBool:
		return BoolV(n.B), true
	case gen.KRef:
		return e.Eval(n.Def)
	case gen.KNot:
		v, ok := e.Eval(n.A[0])
		if !ok || v.K != VBool {
			return e.undef("! operand")
		}
		return BoolV(!v.B), true
	case gen.KBin:
		return e.evalBin(n)
	case gen.KIn:
		return e.evalIn(n)
	case gen.KBetween:
		x, ok1 := e.Eval(n.A[0])
		lo, ok2 := e.Eval(n.A[1])
		hi, ok3 := e.Eval(n.A[2])
		if !ok1 || !ok2 || !ok3 {
			return e.undef("between operand")
		}
		c, ok := cmpVals(lo, hi)
		if !ok || c >= 0 {
			return e.undef("between with lower >= upper (engine rejects it on purpose)")
		}
		c1, okA := cmpVals(lo, x)
		c2, okB := cmpVals(x, hi)
		if !okA || !okB {
			return e.undef("between operand kinds")
		}
		return BoolV(c1 <= 0 && c2 <= 0), true
	case gen.KCall:
		return e.evalCall(n)
	case gen.KIndex:
		base, ok := e.Eval(n.A[0])
		if !ok {
			return e.undef("index base")
		}
		return e.index(base, n)
	}
	return e.undef("unknown node")
}

func (e *Env) index(base Val, n *gen.Node) (Val, bool) {
	if n.IdxStr {
		if base.K != VJson {
			return e.undef("string index on non-JSON")
		}
		m, ok := base.J.(map[string]any)
		if !ok {
			return e.undef("string index on non-object")
		}
		x, have := m[n.S]
		if !have {
			return e.undef("missing JSON member")
		}
		return fromJSON(x), true
	}
	i := int(n.I)
	switch base.K {
	case VList:
		if i < 0 || i >= len(base.L) {
			return e.undef("list index out of range")
		}
		return base.L[i], true
	case VJson:
		arr, ok := base.J.([]any)
		if !ok || i < 0 || i >= len(arr) {
			return e.undef("json index")
		}
		return fromJSON(arr[i]), true
	}
	return e.undef("int index on non-list")
}

// fromJSON re-types a decoded JSON member: strings are Text, numbers Float
// (encoding/json's choice, which the engine shares), bool Bool, rest Json.
func fromJSON(x any) Val {
	switch v := x.(type) {
	case string:
		return Text(v)
	case float64:
		return FloatV(v)
	case bool:
		return BoolV(v)
	}
	return Val{K: VJson, J: x}
}

func (e *Env) evalBin(n *gen.Node) (Val, bool) {
	op := n.Op
	if op == "and" || op == "or" {
		l, lok := e.Eval(n.A[0])
		if e.ShortCircuit {
			if !lok || l.K != VBool {
				return e.undef("and/or left operand")
			}
			if op == "and" && !l.B {
				return BoolV(false), true
			}
			if op == "or" && l.B {
				return BoolV(true), true
			}
			r, rok := e.Eval(n.A[1])
			if !rok || r.K != VBool {
				return e.undef("and/or right operand")
			}
			return r, true
		}
		r, rok := e.Eval(n.A[1])
		if !lok || !rok || l.K != VBool || r.K != VBool {
			return e.undef("and/or operand")
		}
		if op == "and" {
			return BoolV(l.B && r.B), true
		}
		return BoolV(l.B || r.B), true
	}
	l, lok := e.Eval(n.A[0])
	r, rok := e.Eval(n.A[1])
	if !lok || !rok {
		return e.undef("operand undefined")
	}
	switch op {
	case "=", "!=":
		eq, ok := e.equal(l, r)
		if !ok {
			return e.undef("= on these kinds")
		}
		if op == "!=" {
			eq = !eq
		}
		return BoolV(eq), true
	case "^=":
		if l.K != VText || r.K != VText {
			return e.undef("^= kinds")
		}
		return BoolV(strings.HasPrefix(l.S, r.S)), true
	case "~=":
		if l.K != VText || r.K != VText {
			return e.undef("~= kinds")
		}
		re := compileRe(r.S)
		if re == nil {
			return e.undef("bad pattern")
		}
		return BoolV(re.MatchString(l.S)), true
	case ">", ">=", "<", "<=":
		c, ok := cmpVals(l, r)
		if !ok {
			return e.undef("ordering kinds")
		}
		switch op {
		case ">":
			return BoolV(c > 0), true
		case ">=":
			return BoolV(c >= 0), true
		case "<":
			return BoolV(c < 0), true
		}
		return BoolV(c <= 0), true
	case "+":
		if l.K == VText && r.K == VText {
			return Text(l.S + r.S), true
		}
		fallthrough
	case "-", "*", "/":
		if l.K == VInt && r.K == VInt {
			switch op {
			case "+":
				return IntV(l.I + r.I), true
			case "-":
				return IntV(l.I - r.I), true
			case "*":
				return IntV(l.I * r.I), true
			case "/":
				if r.I == 0 {
					return e.undef("division by zero")
				}
				if l.I%r.I != 0 {
					return e.undef("int/int with remainder (docs: 'number division')")
				}
				return IntV(l.I / r.I), true
			}
		}
		lf, lo := num(l)
		rf, ro := num(r)
		if !lo || !ro {
			return e.undef("arithmetic kinds")
		}
		switch op {
		case "+":
			return FloatV(lf + rf), true
		case "-":
			return FloatV(lf - rf), true
		case "*":
			return FloatV(lf * rf), true
		case "/":
			if rf == 0 {
				return e.undef("division by zero")
			}
			return FloatV(lf / rf), true
		}
	}
	return e.undef("operator " + op)
}

func (e *Env) evalIn(n *gen.Node) (Val, bool) {
	x, ok := e.Eval(n.A[0])
	if !ok {
		return e.undef("in left operand")
	}
	var items []Val
	if n.InExpr {
		l, ok := e.Eval(n.A[1])
		if !ok || l.K != VList {
			return e.undef("in right operand")
		}
		items = l.L
	} else {
		for _, a := range n.A[1:] {
			v, ok := e.Eval(a)
			if !ok {
				return e.undef("in item")
			}
			items = append(items, v)
		}
	}
	found := false
	for _, it := range items {
		if x.K == VText && it.K == VText {
			if x.S == it.S {
				found = true
			}
			continue
		}
		c, ok := cmpVals(x, it)
		if !ok {
			return e.undef("in item kind")
		}
		if c == 0 {
			found = true
		}
	}
	return BoolV(found), true
}

func renderForJoin(v Val) (string, bool) {
	switch v.K {
	case VText:
		return v.S, true
	case VInt:
		return strconv.FormatInt(v.I, 10), true
	case VBool:
		if v.B {
			return "true", true
		}
		return "false", true
	}
	return "", false // float renderings are not documented
}

func (e *Env) evalCall(n *gen.Node) (Val, bool) {
	args := make([]Val, len(n.A))
	for i, a := range n.A {
		v, ok := e.Eval(a)
		if !ok {
			return e.undef("call argument")
		}
		args[i] = v
	}
	a0 := Val{}
	if len(args) > 0 {
		a0 = args[0]
	}
	switch n.Op {
	case "upper", "lower":
		if len(args) != 1 || a0.K != VText || !isASCII(a0.S) {
			return e.undef("upper/lower argument")
		}
		if n.Op == "upper" {
			return Text(asciiUpper(a0.S)), true
		}
		return Text(asciiLower(a0.S)), true
	case "substr":
		// README, spec.md and the code disagree on (start, end) versus (start, length); with
		// start 0 the two readings are the same text, so that much is defined
		if len(args) == 3 && a0.K == VText && args[1].K == VInt && args[1].I == 0 && args[2].K == VInt && args[2].I >= 0 && args[2].I <= int64(len(a0.S)) {
			return Text(a0.S[:args[2].I]), true
		}
		return e.undef("substr (documented meanings differ)")
	case "strlen":
		switch a0.K {
		case VText:
			return IntV(int64(len(a0.S))), true
		case VInt:
			return IntV(int64(len(strconv.FormatInt(a0.I, 10)))), true
		}
		return e.undef("strlen argument")
	case "str":
		switch a0.K {
		case VText:
			return a0, true
		case VInt:
			return Text(strconv.FormatInt(a0.I, 10)), true
		}
		return e.undef("str argument (float/bool renderings undocumented)")
	case "int":
		switch a0.K {
		case VInt:
			return a0, true
		case VText:
			if v, ok := PlainInt(a0.S); ok {
				return IntV(v), true
			}
			// the text of a whole decimal ('3.0') is that integer under every reading as well
			if f, ok := PlainFloat(a0.S); ok && f == math.Trunc(f) && math.Abs(f) <= 1<<53 {
				return IntV(int64(f)), true
			}
		case VFloat:
			// a whole number is that integer under every reading of "convert into integer"
			// (README: int(json(value)['test']) >= 1, JSON numbers being floats)
			if a0.F == math.Trunc(a0.F) && math.Abs(a0.F) <= 1<<53 {
				return IntV(int64(a0.F)), true
			}
		}
		return e.undef("int() of non-plain-integer text")
	case "float":
		switch a0.K {
		case VFloat:
			return a0, true
		case VInt:
			return FloatV(float64(a0.I)), true
		case VText:
			if v, ok := PlainFloat(a0.S); ok {
				return FloatV(v), true
			}
			if v, ok := PlainInt(a0.S); ok {
				return FloatV(float64(v)), true
			}
			// a longer run of decimal digits is the float nearest to that number
			if digits := strings.TrimPrefix(a0.S, "-"); len(digits) > 18 && len(digits) <= 30 && strings.Trim(digits, "0123456789") == "" {
				if f, err := strconv.ParseFloat(a0.S, 64); err == nil {
					return FloatV(f), true
				}
			}
		}
		return e.undef("float() of non-plain-decimal text")
	case "is_int":
		switch a0.K {
		case VInt:
			return BoolV(true), true
		case VText:
			switch NumClass(a0.S) {
			case 'i':
				return BoolV(true), true
			case 'f', 'n':
				return BoolV(false), true
			}
		}
		return e.undef("is_int murky")
	case "is_float":
		switch a0.K {
		case VFloat:
			return BoolV(true), true
		case VText:
			switch NumClass(a0.S) {
			case 'i', 'f':
				return BoolV(true), true
			case 'n':
				return BoolV(false), true
			}
		}
		return e.undef("is_float murky")
	case "split":
		if len(args) != 2 || a0.K != VText || args[1].K != VText || args[1].S == "" {
			return e.undef("split arguments")
		}
		var out []Val
		rest := a0.S
		for {
			i := strings.Index(rest, args[1].S)
			if i < 0 {
				out = append(out, Text(rest))
				break
			}
			out = append(out, Text(rest[:i]))
			rest = rest[i+len(args[1].S):]
		}
		return ListV(out), true
	case "join":
		if len(args) < 2 || a0.K != VText {
			return e.undef("join arguments")
		}
		parts := make([]string, 0, len(args)-1)
		for _, v := range args[1:] {
			s, ok := renderForJoin(v)
			if !ok {
				return e.undef("join of a float/list")
			}
			parts = append(parts, s)
		}
		return Text(strings.Join(parts, a0.S)), true
	case "len":
		if a0.K == VJson {
			if arr, ok := a0.J.([]any); ok {
				return IntV(int64(len(arr))), true
			}
		}
		if a0.K != VList {
			return e.undef("len of non-list")
		}
		return IntV(int64(len(a0.L))), true
	case "list", "int_list", "ilist", "float_list", "flist":
		if len(args) == 0 {
			return e.undef("empty list()")
		}
		wantFloat := n.Op == "float_list" || n.Op == "flist"
		if n.Op == "list" {
			// "list elements' type must be same": kind of the first decides
			switch a0.K {
			case VFloat:
				wantFloat = true
			case VInt:
			case VText:
				// README: "the list type support int, str, float types". A text that looks like a
				// number is read as one by the engine (raw values are untyped), which is not
				// documented; a list whose first element is any other text is a list of texts.
				if _, isInt := PlainInt(a0.S); isInt {
					return e.undef("list of numeric-looking texts")
				}
				if _, isFloat := PlainFloat(a0.S); isFloat {
					return e.undef("list of numeric-looking texts")
				}
				if _, err := strconv.ParseFloat(strings.TrimSpace(a0.S), 64); err == nil || a0.S == "" {
					return e.undef("list of numeric-looking texts")
				}
				out := make([]Val, len(args))
				for i, v := range args {
					if v.K != VText {
						return e.undef("mixed list element kinds")
					}
					out[i] = v
				}
				return ListV(out), true
			default:
				return e.undef("list of texts")
			}
		}
		out := make([]Val, len(args))
		for i, v := range args {
			switch {
			case v.K == VInt && !wantFloat:
				out[i] = v
			case v.K == VInt && wantFloat:
				out[i] = FloatV(float64(v.I))
			case v.K == VFloat && wantFloat:
				out[i] = v
			default:
				return e.undef("mixed list element kinds")
			}
		}
		return ListV(out), true
	case "l2_distance", "cosine_distance":
		if len(args) != 2 {
			return e.undef("distance arity")
		}
		a, ok1 := floatVec(args[0])
		b, ok2 := floatVec(args[1])
		if !ok1 || !ok2 {
			return e.undef("distance arguments")
		}
		if len(a) != len(b) {
			return Val{}, false // callers use DistanceMustFail for this case
		}
		if n.Op == "l2_distance" {
			s := 0.0
			for i := range a {
				d := a[i] - b[i]
				s += d * d
			}
			return FloatV(math.Sqrt(s)), true
		}
		dot, na, nb := 0.0, 0.0, 0.0
		for i := range a {
			dot += a[i] * b[i]
			na += a[i] * a[i]
			nb += b[i] * b[i]
		}
		if na == 0 || nb == 0 {
			return e.undef("cosine of a zero vector")
		}
		return FloatV(1 - dot/(math.Sqrt(na)*math.Sqrt(nb))), true
	case "json":
		if a0.K != VText {
			return e.undef("json argument")
		}
		var m map[string]any
		if err := json.Unmarshal([]byte(a0.S), &m); err != nil || m == nil {
			return e.undef("json() of a non-object text")
		}
		return Val{K: VJson, J: m}, true
	}
	return e.undef("function " + n.Op)
}

func floatVec(v Val) ([]float64, bool) {
	var elems []Val
	switch v.K {
	case VList:
		elems = v.L
	case VJson:
		arr, ok := v.J.([]any)
		if !ok {
			return nil, false
		}
		for _, x := range arr {
			elems = append(elems, fromJSON(x))
		}
	default:
		return nil, false
	}
	out := make([]float64, len(elems))
	for i, x := range elems {
		switch x.K {
		case VInt:
			out[i] = float64(x.I)
		case VFloat:
			out[i] = x.F
		case VText:
			if f, ok := PlainFloat(x.S); ok {
				out[i] = f
			} else if iv, ok := PlainInt(x.S); ok {
				out[i] = float64(iv)
			} else {
				return nil, false
			}
		default:
			return nil, false
		}
	}
	return out, true
}

// DistanceMustFail reports whether n is a distance call whose two vectors are
// defined but of different lengths (the engine must return an error).
func (e *Env) DistanceMustFail(n *gen.Node) bool {
	if n.K != gen.KCall || (n.Op != "l2_distance" && n.Op != "cosine_distance") || len(n.A) != 2 {
		return false
	}
	a, ok1 := e.Eval(n.A[0])
	b, ok2 := e.Eval(n.A[1])
	if !ok1 || !ok2 {
		return false
	}
	av, ok1 := floatVec(a)
	bv, ok2 := floatVec(b)
	return ok1 && ok2 && len(av) != len(bv)
}

// ---- ordering reference (C07)

// CompareCols compares two normalised column strings (drive.Norm form) under a
// declared type: 'S' text byte-wise, 'N' numeric (numeric text parsed), 'B'
// false < true. ok=false if the values do not fit the declared type.
func CompareCols(tp byte, a, b string) (int, bool) {
	switch tp {
	case 'S':
		as, ok1 := unText(a)
		bs, ok2 := unText(b)
		if !ok1 || !ok2 {
			return 0, false
		}
		return bytes.Compare([]byte(as), []byte(bs)), true
	case 'N':
		// two integers are compared exactly (float64 cannot tell 2^53 from 2^53+1)
		if ai, ok := colInt(a); ok {
			if bi, ok := colInt(b); ok {
				switch {
				case ai < bi:
					return -1, true
				case ai > bi:
					return 1, true
				}
				return 0, true
			}
		}
		af, ok1 := colNum(a)
		bf, ok2 := colNum(b)
		if !ok1 || !ok2 {
			return 0, false
		}
		switch {
		case af < bf:
			return -1, true
		case af > bf:
			return 1, true
		}
		return 0, true
	case 'B':
		ab, ok1 := colBool(a)
		bb, ok2 := colBool(b)
		if !ok1 || !ok2 {
			return 0, false
		}
		switch {
		case !ab && bb:
			return -1, true
		case ab && !bb:
			return 1, true
		}
		return 0, true
	}
	return 0, false
}

func unText(n string) (string, bool) {
	if len(n) < 3 || n[0] != 'T' {
		return "", false
	}
	s, err := strconv.Unquote(n[1:])
	return s, err == nil
}

func colNum(n string) (float64, bool) {
	if len(n) < 2 {
		return 0, false
	}
	switch n[0] {
	case 'I':
		v, err := strconv.ParseInt(n[1:], 10, 64)
		return float64(v), err == nil
	case 'F':
		v, err := strconv.ParseFloat(n[1:], 64)
		return v, err == nil && !math.IsNaN(v)
	case 'T':
		s, ok := unText(n)
		if !ok {
			return 0, false
		}
		if v, ok := PlainInt(s); ok {
			return float64(v), true
		}
		if v, ok := PlainFloat(s); ok {
			return v, true
		}
	}
	return 0, false
}

func colInt(n string) (int64, bool) {
	if len(n) < 2 {
		return 0, false
	}
	switch n[0] {
	case 'I':
		v, err := strconv.ParseInt(n[1:], 10, 64)
		return v, err == nil
	case 'T':
		s, ok := unText(n)
		if !ok {
			return 0, false
		}
		return PlainInt(s)
	}
	return 0, false
}

func colBool(n string) (bool, bool) {
	switch n {
	case "Btrue", `T"true"`:
		return true, true
	case "Bfalse", `T"false"`:
		return false, true
	}
	return false, false
}
