package checks

import (
	"fmt"
	"strings"

	kvql "github.com/c4pt0r/kvql"

	"kvqlverif/drive"
	"kvqlverif/gen"
	"kvqlverif/refstore"
	"kvqlverif/rt"
)

// C06 — no query text and no data can crash the library. Process-level
// monitor: recover() around plan/explain/drain/render, worker exit status
// (fatal errors bypass recover), storage-call budget (bounded progress),
// row cap, watchdog (coordinator).

type c06 struct{ rt.Base }

func init() { rt.Register(&c06{}) }

func (c06) ID() string { return "C06" }

func (c06) NumCases(tier string) int {
	if tier == "thorough" {
		return 3000000/c06Block + len(c06Hostile) + len(c06Shared)
	}
	return 120000/c06Block + len(c06Hostile) + len(c06Shared)
}

const c06Block = 10

func (c06) CaseTimeoutSec() int { return 30 }

func (c06) Rule() string {
	return "query texts: grammar-generated valid statements of every kind; every kind of single-token deletion / duplication / replacement and random single-byte edits of them; a hand-written hostile corpus (self- and mutually-referential aliases, zero-argument calls of every function, out-of-range substr/index arguments, negative numbers via 0 - n, huge/empty literals, unterminated quotes, parentheses nested to 4 KB, long queries with late errors, leading/trailing blanks); the same monitors also run under go's native coverage-guided fuzzing engine (harness/fuzzq; seeded with the hostile corpus and 300 generated statements; a fixed number of executions; every crasher re-run alone in a fresh process before it counts); each over stores {empty, tiny, non-numeric, mixed-type JSON, binary/non-UTF-8, extreme numbers, wide} in row and batch mode; every returned error is bound to the query and rendered with paddings 0, 7 and 20. Non-trivial: the text is not rejected by the first token check (it reaches the expression parser); distinct by (query text, store family, mode) hash."
}

func (c06) Assumptions() []string {
	return []string{"'loops forever' is restated as bounded progress: at most 64*(pairs+query length)+1024 storage calls and 20000 rows per statement, plus the coordinator's 30 s watchdog (confirmed by a solo re-run)", "inputs up to a few kilobytes"}
}

func (c06) Gates(tier string, m map[string]int64) []rt.Gate {
	return []rt.Gate{
		rt.GateMin("executions ending in a parse/plan error", m, "end:planerr", 100),
		rt.GateMin("executions ending in an execution error", m, "end:execerr", 100),
		rt.GateMin("executions ending in success", m, "end:ok", 1000),
		rt.GateMin("errors rendered after BindQuery", m, "rendered", 1000),
		rt.GateMin("hostile corpus entries run", m, "hostile_run", int64(len(c06Hostile)+len(c06Shared))),
		rt.GateMin("statements with a field definition shared by 2^30 or more expansions run", m, "shared_definition_chains_run", int64(len(c06Shared))),
		rt.GateMin("mutated statements run", m, "mutants_run", 1000),
		rt.GateMin("coverage-guided stage: executions under the monitors", m, "fuzz_execs", 100000),
		rt.GateMin("coverage-guided stage: corpus entries kept for reaching new code", m, "fuzz_corpus_entries", 300),
	}
}

var c06Funcs = []string{"lower", "upper", "int", "float", "str", "is_int", "is_float", "substr", "json", "split", "list", "float_list", "int_list", "flist", "ilist", "len", "join", "strlen", "cosine_distance", "l2_distance", "count", "sum", "avg", "min", "max", "quantile", "json_arrayagg", "group_concat"}

var c06Hostile = func() []string {
	h := []string{
		"select upper(u) as u where key = 'a'",
		"select key, value where true order by value, value desc",
		"select key, strlen(value) as n where true order by n desc, n, key",
		"select value, count(1) as c where true group by value order by c, c desc limit 3",
		"select * where key ^= '' & key ^= 'k'",
		"select * where key ^= 'k' | key ^= ''",
		"select a + 1 as b, b + 1 as a where a > 1",
		"select upper(x) as x, lower(x) as y where y = 'a'",
		"select key, int(value) as n where n > n",
		"select n as n where true",
		"select lower(a) as b, upper(b) as a, key as a where key ^= 'k'",
		"select key as a, lower(a) as b, upper(b) as a where key ^= 'k'",
		"select upper(a) as a, key as a where a = 'K1'",
		"select key as a, upper(a) as a, lower(a) as a where a != 'x'",
		"select b + 1 as a, a + 1 as b, 1 as a, 2 as b where a > 0",
		"select int(value) as n, n + m as m, 1 as m where m > 0 order by m",
		"select key, a as a where true order by a",
		"select count(c) as c where true",
		"select value as g, count(1) as g where true group by g",
		"select value as g, sum(g) as g where true group by g order by g",
		"select * where key = 'a' order by key",
		"select substr(key, 2, 1) where true",
		"select substr(key, 5, 9), substr(value, 0 - 1, 2), substr(key, 1, 0 - 5) where true",
		"select substr('abc', 2, 1) where true",
		"select substr('abc', 7, 1), substr('', 0, 0) where true",
		"select split(value, ',')[99], split(value, ',')[0 - 1] where true",
		"select list(1,2,3)[5], list(1,2,3)[0] where true",
		"select json(value)['x']['y']['z'][3]['q'] where true",
		"select json(value)[0], json(value)['list'][99] where true",
		"select key, json(value)['x'] as j where true order by j",
		"select key, json(value)['x'] as j where true order by j desc, key limit 1, 2",
		"select key, value where true order by value, key desc",
		"select sum(int(value)) as s, value where true group by value order by s",
		"select sum(float(value)) as s, key where true group by key order by s desc",
		"select key where json(value)['x'] > 1",
		"select key where json(value)['x'] = 'str' | json(value)['list'][1] = 2",
		"select 0 - 5, 0 - 9223372036854775807 - 10, 9223372036854775807 + 1 where true",
		"select 1 / (strlen(key) - strlen(key)) where true",
		"select int(value) / int(value) where true",
		"select key where value ~= '('",
		"select key where value ~= '[' | key ~= '*'",
		"select key where key between 'z' and 'a'",
		"select key where int(value) between 9 and 1",
		"select * where key in ()",
		"select * where key in (",
		"select * where key in ('a'",
		"select * where key in ('a',",
		"select * where key between 'a'",
		"select * where key between 'a' and",
		"select * where",
		"select",
		"select *",
		"select * where true limit",
		"select * where true limit 1,",
		"select * where true limit 1, 2, 3",
		"select * where true limit 99999999999999999999",
		"select * where true order by",
		"select * where true group by",
		"select * where true order by key, ",
		"select count(1) where true group by nosuch",
		"select key where true group by key",
		"select key, count(1) where true",
		"select quantile(int(value), 2.0) where true",
		"select quantile(int(value), 0 - 0.5) where true",
		"select quantile(int(value), 0 - 25), count(1) where true",
		"select quantile(int(value), 0.5 - 1) where key ^= 'k'",
		"select quantile(int(value), 'x') where true",
		"select quantile(int(value)) where true",
		"select group_concat(value) where true",
		"select group_concat(value, 1) where true",
		"select sum(sum(int(value))) where true",
		"select count(1) + where true",
		"put",
		"put (",
		"put ('a'",
		"put ('a', ",
		"put ('a', 'b'",
		"put ('a', 'b'),",
		"put ('a', value)",
		"put (key, key)",
		"put ('a', 1/0)",
		"put (1/0, 'a')",
		"put ('k', 10 / strlen(''))",
		"remove",
		"remove ,",
		"remove 'a',",
		"remove key",
		"remove 1 / strlen('')",
		"delete",
		"delete where",
		"delete where true limit",
		"delete where key",
		"delete where key = 'a' extra",
		"where key = 'a'",
		"where",
		";",
		";;;",
		"select * where true;;;",
		"select * where key = 'unterminated",
		"select * where key = \"unterminated",
		"select * where `unterminated = 1",
		"select 'a' 'b' where true",
		"select * where key = 'a' 'b'",
		"select * where key == 'a'",
		"select * where key = = 'a'",
		"select * where ! ! ! true",
		"select * where !",
		"select * where ()",
		"select * where (true",
		"select * where true)",
		"select * where key[1] = 'a'",
		"select * where 'abc'[1] = 'a'",
		"select * where json(value)[] = 'a'",
		"select * where json(value)['a' 'b'] = 'a'",
		"select * where json(value)['a', 'b'] = 'a'",
		"select * where f(",
		"select * where f(1,",
		"select * where f(1 2)",
		"select * where (1)(2)",
		"select * where key(1) = 2",
		"select * where 'x'('y')",
		"select * where 1(2) = 3",
		"select 1 as where true",
		"select 1 as 2 where true",
		"select 1 as select where true",
		"select * , key where true",
		"select key, * where true",
		"     select * where key ^= 'a' & value = nosuch(1)     ",
		"   \t select * where true",
		"select * where key ^= 'k' & value ^= 'v' & key != 'zzzzzzzzzzzzzzzzzzzzzzzzzzzzzzzzzzzzzzzzzzzzzzzzzzzzzz' & val ^= 'test'",
		"select * where key ^= 'k' & value ^= 'v' & key != 'zzzzzzzzzzzzzzzzzzzzzzzzzzzzzzzzzzzzzzzzzzzzzzzzzzzzzz' & value +",
		"          select * where key ^= 'k' & value ^= 'v' & key != 'zzzzzzzzzzzzzzzzzzzzzzzzzzzzzzzzzzzzzzzzzzzzzzzzzzzzzz' & val ^= 'test'          ",
		"select key, int(value) as v where key ^= 'a-rather-long-prefix-for-this-demo' & v between 10 and\n",
		"select l2_distance(list(1,2), list(1)) where true",
		"select cosine_distance(list(0,0), list(0,0)) where true",
		"select l2_distance(split(value, ','), list(1,2,3)) where true",
		"select l2_distance(json(value)['list'], list(1,2,3)) where true",
		// wave 15 (C06-aa): arrays whose elements are neither numbers nor text
		`select l2_distance(list(1,2), json('{"v":[1,true]}')['v']) where true`,
		`select key, l2_distance(json('{"v":[null,{"a":1}]}')['v'], list(1,2)) where true`,
		`select cosine_distance(json('{"v":[[1],2]}')['v'], list(1,2)) where true`,
		`select key where cosine_distance(list(3,4), json('{"v":[false,null]}')['v']) > 0`,
		"select l2_distance(list(1,2,3), json(value)['x']) where true",
		"select len(1), len('abc'), len(json(value)) where true",
		"select * where 1 in list(1,2) & 'a' in list(1,2)",
		"select * where key in json(value)",
		"select * where key in split(value, '')",
		"select split(value, '') where true",
		"select join() where true",
		"select join(1) where true",
		"select list() where true",
		"select float_list() , int_list() where true",
		"select * where " + strings.Repeat("(", 2000) + "true" + strings.Repeat(")", 2000),
		"select * where " + strings.Repeat("(", 2000) + "true",
		"select * where " + strings.Repeat("!", 3000) + "true",
		"select " + strings.Repeat("upper(", 1000) + "key" + strings.Repeat(")", 1000) + " where true",
		"select * where key = '" + strings.Repeat("x", 4000) + "'",
		"select * where " + strings.Repeat("key = 'a' | ", 300) + "key = 'b'",
		"select * where " + strings.Repeat("key ^= 'a' & ", 300) + "key ^= 'ab'",
		"select * where key in (" + strings.Repeat("'k', ", 500) + "'z')",
		"select " + strings.Repeat("key, ", 300) + "value where true",
		"select 1" + strings.Repeat(" + 1", 500) + " where true",
		"select 'a'" + strings.Repeat(" + 'b'", 500) + " where true",
		"select json(value)" + strings.Repeat("['x']", 300) + " where true",
		"put " + strings.Repeat("('k', 'v'), ", 300) + "('z', 'z')",
		"remove " + strings.Repeat("'k', ", 300) + "'z'",
		strings.Repeat(" ", 60) + "select * where key ^= 'k' & value ^= 'v' & key != 'zzzzzzzzzzzzzzzzzzzzzzzzzzzzzzzzzzzzzzzzzzzz' & val ^= 'test'",
		strings.Repeat(" ", 90) + "select * where key ^= 'k' & value ^= 'v' & key != 'zzzzzzzzzzzzzzzzzzzzzzzzzzzzzzzzzzzzzzzzzzzz' & value +",
		strings.Repeat(" ", 80) + "select * where val = 1",
		strings.Repeat(" ", 200) + "select * where key = 'a' & nosuch(key) = 1" + strings.Repeat(" ", 200),
		"select * where key ^= 'k' & value ^= 'v' & key != 'zzzzzzzzzzzzzzzzzzzzzzzzzzzzzzzzzzzzzzzzzzzzzzzzzzzzzzzzzzzzzzzzzzzzzzzzzzzzzzzzzzzzzzzzzzzzzzzzzzzzzzzzzzzzz' & int(value) / (strlen(key) - strlen(key)) > 1",
		// back-quoted names keep their case, bare words are lower-cased: definitions that meet through either spelling
		"select upper(`U`) as u where key = 'a'",
		"select upper(u) as `U`, lower(`U`) as u where true",
		"select `A` + 'x' as a, a + 'y' as `A` where true",
		"select upper(`aB`) as `Ab`, lower(`Ab`) as `aB` where true",
		"select key as `K`, `k` + 'x' as k where `K` = 'a' | k = 'b'",
		"select int(value) as `N`, `n` + 1 as n, `N` + 1 as `n2` where n > 0 order by `N`",
		"select `KEY`, `Value`, `key` where true",
		"select upper(`Key`) as `key` where `key` = 'A'",
		// words that strconv.ParseFloat accepts are FLOAT literals: nan, inf, infinity, exponents, hex floats
		"select quantile(value, nan) where true",
		"select quantile(int(value), nan), count(1) where key ^= 'k'",
		"select quantile(int(value), inf) where true",
		"select quantile(int(value), 0 - inf) where true",
		"select quantile(int(value), nan * 0) where true",
		"select quantile(int(value), inf - inf) where true",
		"select quantile(float(value), 0x1p-1) where true",
		"select key, quantile(int(value), nan) where true group by key order by key",
		"select nan, inf, infinity, 0 - inf, nan + 1, inf / inf, inf * 0, 1 / inf, int(nan), int(inf), str(nan) where true",
		"select key where int(value) > nan | float(value) < inf | nan = nan | nan between nan and nan",
		"select key where int(value) between nan and inf",
		"select key where nan in (nan, inf) | inf in list(inf, nan)",
		"select * where true limit nan",
		"select * where true limit inf, nan",
		"select * where true limit 1e3",
		"select substr(key, nan, inf), substr(value, inf, nan), substr(key, 0 - inf, 1e3) where true",
		"select split(value, ',')[nan], split(value, ',')[inf], json(value)['list'][nan] where true",
		"select list(nan, inf)[nan], ilist(nan, inf), flist(nan, inf, 1e308 * 10) where true",
		"select l2_distance(list(nan, inf), list(inf, nan)), cosine_distance(list(nan, 1), list(inf, 1)) where true",
		"select sum(nan), avg(inf), min(nan), max(nan), sum(inf - inf), avg(nan), json_arrayagg(nan), group_concat(inf, nan) where true",
		"select key, int(value) / nan as a, int(value) / inf as b where true order by a, b",
		"select key, float(value) * nan as a where true order by a desc limit inf",
		"select count(1) where true group by nan, inf",
		"put (nan, inf)",
		"put ('k' + nan, str(inf))",
		"remove nan, inf",
		"delete where key = nan",
		"\x00", "\xff\xfe", "select \x00 where true", "select * where key = '\xff'", "select * where key = 'a\x00b'",
		"", " ", "    ",
	}
	for _, f := range c06Funcs {
		h = append(h, "select "+f+"() where true", "select key where "+f+"()", "select "+f+"(key, key, key, key, key) where true", "select "+f+"(1) where true", "select "+f+"('a', 'b') where true",
			"select "+f+"("+f+"(value)) where true", "select key, "+f+"(value) as f where true order by f", "select "+f+"(json(value)) where true", "select "+f+"(split(value, ',')) where true",
			"select "+f+"(true) where true", "select "+f+"('a') where true", "select "+f+"('12') + "+f+"('a' + 'b') where true", "select key where "+f+"('a') = "+f+"(key)", "select "+f+"(value)['x'] where true", "select "+f+"(value)[0] where true", "select * where 'a' in "+f+"(value)", "select * where 1 in "+f+"(value)")
	}
	return h
}()

var c06StoreFamilies = []string{"empty", gen.FTiny, gen.FMixed, gen.FBinary, "extreme", gen.FWide, gen.FNum, gen.FRel, "text", gen.FJSON}

func c06Store(r *rt.Rand, fam string) []refstore.Pair {
	switch fam {
	case "empty":
		return nil
	case "extreme":
		vals := []string{"9223372036854775807", "-9223372036854775808", "9223372036854775808", "1e308", "-1e308", "1e-320", "NaN", "Inf", "-Inf", "99999999999999999999999999", "0x10", "1_000", "+5", " 7", "7 ", "1e3", ".5", "5.", "-0", "00012", "1.7976931348623157e309", "infinity", "0.1", "-0.0"}
		var ps []refstore.Pair
		n := r.Range(1, 10)
		for i := 0; i < n; i++ {
			ps = append(ps, refstore.Pair{K: fmt.Sprintf("k%02d", i), V: vals[r.Intn(len(vals))]})
		}
		return ps
	case "text":
		vals := []string{"abc", "", "hello world", "a,b,,c", ",,,", "x", "{not json", "[1,2,3]", `"str"`, "null", "true", `{"x":[1,"a",{"y":2}],"list":"notalist"}`, `{"x":{"y":{"z":[0,1,2,3]}}}`}
		var ps []refstore.Pair
		n := r.Range(1, 10)
		for i := 0; i < n; i++ {
			ps = append(ps, refstore.Pair{K: fmt.Sprintf("k%02d", i), V: vals[r.Intn(len(vals))]})
		}
		return ps
	}
	return gen.NewStore(r, fam).Pairs
}

// tokens for single-token edits
var c06Tokens = []string{"select", "where", "key", "value", "limit", "order", "by", "asc", "desc", "true", "false", "as", "group", "in", "between", "put", "remove", "and", "or", "delete",
	"=", "!=", "^=", "~=", ">", ">=", "<", "<=", "+", "-", "*", "/", "!", "&", "|", "(", ")", "[", "]", ",", ";", "'a'", "''", "1", "0", "1.5", "nan", "inf", "infinity", "1e5", "0x1p4", "1e308", "x", "f1", "upper", "int", "count", "sum", "split", "json", "list", "'", "\"", "`"}

func c06Tokenize(q string) []string {
	toks := kvql.NewLexer(q).Split()
	out := make([]string, 0, len(toks))
	for i, t := range toks {
		end := len(q)
		if i+1 < len(toks) {
			end = toks[i+1].Pos
		}
		if t.Pos >= 0 && t.Pos <= end && end <= len(q) {
			out = append(out, strings.TrimSpace(q[t.Pos:end]))
		}
	}
	return out
}

func c06Mutate(r *rt.Rand, q string) string {
	switch r.Intn(6) {
	case 0, 1, 2: // token edits
		toks := c06Tokenize(q)
		if len(toks) < 2 {
			return q + " " + c06Tokens[r.Intn(len(c06Tokens))]
		}
		i := r.Intn(len(toks))
		switch r.Intn(4) {
		case 0:
			toks = append(toks[:i], toks[i+1:]...)
		case 1:
			toks = append(toks[:i+1], toks[i:]...)
		case 2:
			toks[i] = c06Tokens[r.Intn(len(c06Tokens))]
		default:
			toks = append(toks[:i], append([]string{c06Tokens[r.Intn(len(c06Tokens))]}, toks[i:]...)...)
		}
		return strings.Join(toks, " ")
	case 3: // byte edit
		if len(q) == 0 {
			return "x"
		}
		b := []byte(q)
		i := r.Intn(len(b))
		switch r.Intn(3) {
		case 0:
			b[i] = byte(r.Intn(256))
		case 1:
			b = append(b[:i], b[i+1:]...)
		default:
			const ins = "()[]'\"`,;!&|=<>+-*/ ^~"
			b = append(b[:i], append([]byte{ins[r.Intn(len(ins))]}, b[i:]...)...)
		}
		return string(b)
	case 4: // truncate
		if len(q) < 2 {
			return q
		}
		return q[:r.Intn(len(q))]
	default: // blanks / long padding
		pad := strings.Repeat(" ", r.Intn(6))
		if r.Chance(1, 3) {
			pad = strings.Repeat(" ", r.Range(30, 120))
		}
		return pad + q + strings.Repeat(" ", r.Intn(6))
	}
}

// c06Shared are statements whose fields refer to earlier fields by name several times, so the
// expanded expression is exponentially larger than the text. With the field cache (the default)
// every definition is evaluated once per row; without it the work is the size of the expansion,
// by definition of an uncached name, so these run with the cache on only.
var c06Shared = func() []string {
	chain := func(n int, first, step string) string {
		var b strings.Builder
		b.WriteString("select " + first + " as a0")
		for i := 1; i <= n; i++ {
			b.WriteString(", " + strings.ReplaceAll(step, "$", fmt.Sprintf("a%d", i-1)) + fmt.Sprintf(" as a%d", i))
		}
		return b.String()
	}
	var h []string
	for _, n := range []int{30, 45, 60} {
		last := fmt.Sprintf("a%d", n)
		h = append(h,
			chain(n, "strlen(key)", "$+$")+" where key ^= 'k'",
			chain(n, "strlen(key)", "$+$")+" where true order by "+last+" limit 3",
			chain(n, "strlen(key)", "$+$")+" where "+last+" >= 0 | "+last+" < 0",
			chain(n, "int(value)", "$*$+$")+" where true",
			chain(n, "key", "substr(upper($)+lower($), 1, 4)")+" where key ^= 'k' limit 2",
			chain(n, "strlen(key)", "$+$")+", count(1) where true group by "+last,
			chain(n, "strlen(key)", "nosuch($)+$")+" where true",
			chain(n, "strlen(key)", "$+upper($)")+" where true",
			chain(n, "float(value)", "l2_distance(list($,$), list($,$))")+" where true",
			chain(n, "(key = 'k01')", "$ & $ | $")+" where "+last,
		)
		// the constant parameter of an aggregate given through a chain of names: evaluated once
		// when the plan is built, outside any row
		var names []string
		for i := 0; i <= n; i++ {
			names = append(names, fmt.Sprintf("a%d", i))
		}
		h = append(h,
			chain(n, "0.5", "$*$")+", quantile(int(value), "+last+") as q where key ^= 'k' group by "+strings.Join(names, ", "),
			chain(n, "'x'", "substr($+$, 0, 1)")+", group_concat(value, "+last+") as q where key ^= 'k' group by "+strings.Join(names, ", "),
		)
	}
	return h
}()

func (k c06) Run(c *rt.Ctx) {
	r := c.R
	if c.Case >= len(c06Hostile) && c.Case < len(c06Hostile)+len(c06Shared) {
		q := c06Shared[c.Case-len(c06Hostile)]
		c.Rec.Inc("hostile_run")
		c.Rec.Inc("shared_definition_chains_run")
		for _, fam := range []string{"empty", gen.FMixed, "extreme", gen.FNum} {
			ps := c06Store(r, fam)
			for _, m := range []drive.Mode{{Batch: false, Size: 3, Cache: true}, {Batch: true, Size: 3, Cache: true}, {Batch: true, Size: 32, Cache: true}} {
				k.exec(c, q, ps, fam, m, "hostile")
			}
		}
		return
	}
	if c.Case < len(c06Hostile) {
		q := c06Hostile[c.Case]
		c.Rec.Inc("hostile_run")
		for _, fam := range []string{"empty", gen.FMixed, "text", "extreme", gen.FNum} {
			ps := c06Store(r, fam)
			for _, m := range []drive.Mode{{Batch: false, Size: 3, Cache: true}, {Batch: true, Size: 3, Cache: true}, {Batch: true, Size: 32, Cache: false}} {
				k.exec(c, q, ps, fam, m, "hostile")
			}
		}
		return
	}
	for i := 0; i < c06Block; i++ {
		fam := c06StoreFamilies[r.Intn(len(c06StoreFamilies))]
		ps := c06Store(r, fam)
		gs := &gen.Store{Family: fam, Pairs: ps}
		g := fullGenFor(c, gs, r)
		g.RefBias = r.Intn(3)
		stmt := g.Any(r.Range(1, 3))
		q := stmt.Text(gen.Style{Paren: r.Intn(4), R: r.Fork(), Case: r.Chance(1, 3), Tight: r.Chance(1, 4)})
		kind := "valid"
		if r.Chance(1, 2) {
			n := 1
			if r.Chance(1, 4) {
				n = r.Range(2, 4)
			}
			for j := 0; j < n; j++ {
				q = c06Mutate(r, q)
			}
			kind = "mutant"
			c.Rec.Inc("mutants_run")
		}
		m := drive.Mode{Batch: r.Bool(), Size: pickBatch(c), Cache: r.Chance(2, 3)}
		k.exec(c, q, ps, fam, m, kind)
	}
}

func c06BuildExecutor(q string) (pan string) {
	defer func() {
		if r := recover(); r != nil {
			pan = fmt.Sprint(r)
		}
	}()
	kvql.BuildExecutor(q)
	return ""
}

func (k c06) exec(c *rt.Ctx, q string, ps []refstore.Pair, fam string, m drive.Mode, kind string) {
	rec := c.Rec
	st := refstore.New(ps)
	st.NoLog = true
	st.MaxCalls = 64*(len(ps)+len(q)) + 1024
	o := drive.Run(q, st, m)
	rec.Eval(1)
	rec.Inc("end:" + o.Status())
	if kind != "valid" || o.PlanErr == nil {
		rec.DistinctS(q + "\x00" + fam + m.String())
	}
	brief := outcomeBrief(o) // before the error gets bound to the query
	detail := func(extra rt.D) func() rt.D {
		return func() rt.D {
			qq := q
			if len(qq) > 600 {
				qq = qq[:300] + " ...(" + fmt.Sprint(len(q)) + " bytes)... " + qq[len(qq)-200:]
			}
			d := rt.D{"query": qq, "query_len": len(q), "store_family": fam, "store": storeBrief(ps), "mode": m.String(), "outcome": brief, "kind": kind}
			for kk, v := range extra {
				d[kk] = v
			}
			return d
		}
	}
	c.Logf("query(%d bytes): %.300s\nstore %s %v mode %s\noutcome: %v", len(q), q, fam, storeBrief(ps), m, brief)
	if o.Status() == "panic" {
		c.Violation("panic", o.PanicPhase+" / "+o.Frame+" / "+panicClass(o.Panic), detail(nil))
		return
	}
	if !m.Batch {
		// the other public way from a query text to something executable: parse + filter executor
		if pan := c06BuildExecutor(q); pan != "" {
			c.Violation("panic", "BuildExecutor / "+panicClass(pan), detail(rt.D{"panic": pan}))
			return
		}
	}
	if st.OverBudget {
		c.Violation("unbounded-storage-polling", "storage call budget exceeded", detail(rt.D{"calls": st.Calls(), "budget": st.MaxCalls}))
		return
	}
	if o.Status() == "runaway" {
		c.Violation("unbounded-result", "more than 20000 rows returned", detail(nil))
		return
	}
	if err := o.Err(); err != nil {
		texts, pan, frame := drive.Render(err, q, []int{0, 7, 20})
		rec.Inc("rendered")
		if pan != "" {
			pos, _, _ := drive.ErrPos(err)
			c.Violation("panic-while-rendering-error", frame+" / "+panicClass(pan), detail(rt.D{"render_panic": pan, "error_pos": pos}))
			return
		}
		_ = texts
	}
}

func panicClass(p string) string {
	switch {
	case strings.Contains(p, "slice bounds out of range"):
		return "slice bounds out of range"
	case strings.Contains(p, "index out of range"):
		return "index out of range"
	case strings.Contains(p, "interface conversion"):
		return "interface conversion"
	case strings.Contains(p, "nil pointer"):
		return "nil pointer dereference"
	case strings.Contains(p, "nil map"):
		return "nil map"
	}
	if len(p) > 60 {
		p = p[:60]
	}
	return p
}

func (k c06) RunWitness(c *rt.Ctx, w map[string]any) {
	q, _ := w["statement"].(string)
	ps := pairsFromAny(w["store"])
	for _, m := range []drive.Mode{{Batch: false, Size: 3, Cache: true}, {Batch: true, Size: 3, Cache: true}} {
		k.exec(c, q, ps, "witness", m, "witness")
	}
}
