//go:build verif

// Package fuzzq is the coverage-guided stage of C06: go's native fuzzing
// engine mutates query texts (seeded with the hostile corpus and grammar
// generated statements) and keeps those that reach new code in kvql; every
// input runs under the same monitors as the generated stage (recover around
// plan/drain/render, storage-call budget, row cap). A fatal error or a hang
// kills the fuzz worker, which the engine reports as a crasher as well.
package fuzzq

import (
	"os"
	"strconv"
	"testing"

	"kvqlverif/checks"
)

func FuzzStatement(f *testing.F) {
	n := 300
	if v, err := strconv.Atoi(os.Getenv("VERIF_FUZZ_SEEDS")); err == nil {
		n = v
	}
	for i, q := range checks.C06FuzzSeeds(n) {
		f.Add(q, byte(i), byte(i*7))
	}
	f.Fuzz(func(t *testing.T, q string, storeSel, modeSel byte) {
		if len(q) > 4096 {
			t.Skip()
		}
		if v, _ := checks.C06FuzzOne(q, storeSel, modeSel); v != "" {
			t.Fatalf("C06 violated: %s\nquery: %q", v, q)
		}
	})
}
