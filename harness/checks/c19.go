package checks

import (
	"fmt"
	"regexp"
	"runtime"
	"strings"
	"sync"
	"sync/atomic"

	kvql "github.com/c4pt0r/kvql"

	"kvqlverif/drive"
	"kvqlverif/gen"
	"kvqlverif/refstore"
	"kvqlverif/rt"
)

// C19 — independent statements run concurrently without races or
// interference. Monitors: (1) the Go race detector (the harness is built with
// -race for this check; reports are collected from GORACE's log files by the
// coordinator); (2) every goroutine's outcomes must equal the outcomes of the
// same statements run alone earlier in the same process.

type c19 struct{ rt.Base }

func init() { rt.Register(&c19{}) }

func (c19) ID() string          { return "C19" }
func (c19) Workers() int        { return 4 }
func (c19) CaseTimeoutSec() int { return 120 }

func (c19) NumCases(tier string) int {
	if tier == "thorough" {
		return 12 * 3000 / 10
	}
	return 3 * 200 / 2
}

func (c19) Rule() string {
	return "rounds of 2..16 goroutines under GOMAXPROCS in {2,4,8,16}; each goroutine parses, plans and drains (row or batch) its own list of 6..20 statements (all plan kinds, aggregates with ORDER/LIMIT, regexp filters, alias caches, error paths incl. rendering) with its own ExecuteCtx, over (a) private stores, (b) one shared read-only store, (c) one shared mutable store where goroutine g only touches keys prefixed g<g>_; storage calls yield or sleep 0..50 us (PRNG) to widen interleavings where a real store blocks; the stores hand keys and values out as slices of their own buffers (one backing array for all callers, canary bytes in the spare capacity) and check them after the round. Built with the Go race detector. Non-trivial: a round in which at least two statements were in flight at the same time; distinct by the hash of the global order of storage events."
}

func (c19) Assumptions() []string {
	return []string{"package-level configuration (PlanBatchSize, EnableFieldCache, DefaultErrorPadding) is set before the goroutines start and not touched during a round: mutating it mid-flight is the caller's race", "the race detector sees only accesses that happen; schedules are sampled, not enumerated", "a race report counts as a violation only if both conflicting accesses are inside package kvql"}
}

func (c19) Gates(tier string, m map[string]int64) []rt.Gate {
	return []rt.Gate{
		rt.GateMin("rounds in which every goroutine runs the same statement text first", m, "rounds_with_a_common_statement", 20),
		rt.GateMin("rounds in which every goroutine parses JSON documents of its own", m, "rounds_of_json_statements", 20),
		rt.GateMin("stores whose handed-out memory was checked for damage afterwards", m, "arenas_checked", 100),
		rt.GateMin("max statements in flight at the same time", m, "max:in_flight", 2),
		rt.GateMin("rounds with overlapping executions", m, "overlapping_rounds", 20),
		rt.GateMin("distinct global orders of storage events", m, "distinct", 50),
		rt.GateMin("statements compared with their solo outcome", m, "compared", 2000),
		rt.GateMin("shared mutable store rounds", m, "store:shared-mutable", 10),
		rt.GateMin("shared read-only store rounds", m, "store:shared-readonly", 10),
		rt.GateMin("private store rounds", m, "store:private", 10),
	}
}

func c19Data(prefix string, n int) []refstore.Pair {
	return gen.Dense(n, prefix, func(i int) string {
		switch i % 6 {
		case 5:
			return fmt.Sprintf("%d,%d,%d", i%3, i, (i*7)%11) // a vector written as text
		case 0:
			return fmt.Sprint(i % 7)
		case 1:
			return fmt.Sprintf("v%d,x,%d", i%3, i)
		case 2:
			return fmt.Sprintf(`{"x":%d,"y":"s%d","id":"%s%d","tag":"t%d"}`, i%4, i%3, prefix, i, i%3) // a document of its own per pair
		case 3:
			return fmt.Sprintf("%d.5", i%6)
		}
		return "g" + fmt.Sprint(i%4)
	})
}

// statements over the key prefix p (e.g. "g3_")
func c19Statements(r *rt.Rand, p string, n int, mutable bool) []string {
	pool := []string{
		"select * where key ^= '%[1]s'",
		"select key, upper(value) as u where key ^= '%[1]s' & u ~= '^V[0-9]'",
		"select key, value where key ^= '%[1]s' & value ~= '^g[0-3]$'",
		"select key where key ^= '%[1]s' & value ~= '^[0-9]+$'",
		"select key, int(value) as n where key ^= '%[1]s' & n > 2 order by n desc, key limit 1, 5",
		"select key, int(value) as n, n * 2 as m, m + n where key ^= '%[1]s' & n >= 0 & m < 100",
		"select value, count(1) as c, sum(int(value)) as s where key ^= '%[1]s' group by value order by c desc, value limit 4",
		"select substr(value, 0, 1) as g1, strlen(key) as g2, count(1) as c where key ^= '%[1]s' group by g1, g2",
		"select count(1), min(key), max(strlen(value)), avg(int(value)) where key ^= '%[1]s'",
		"select group_concat(key, ','), json_arrayagg(value) where key ^= '%[1]s' & is_int(value)",
		"select key, json(value)['x'], json(value)['y'] where key ^= '%[1]s' & value ^= '{'",
		"select key, split(value, ',')[1] as p where key ^= '%[1]s' & 'x' in split(value, ',')",
		"select * where key in ('%[1]s001', '%[1]s003', '%[1]s999')",
		"select * where key between '%[1]s002' and '%[1]s009' & value != 'zz'",
		"select * where key > '%[1]s010' & key <= '%[1]s020' order by value, key desc",
		"select key, l2_distance(list(1,2,3), list(strlen(key), int(value), 2)) as d where key ^= '%[1]s' order by d limit 3",
		"select key, l2_distance(list(1,2,3), split(value, ',')) as d where key ^= '%[1]s' & value ~= '^[0-9]+,[0-9]+,[0-9]+$' order by d, key limit 5",
		"select key, cosine_distance(split(value, ','), list(3,2,1)) as d where key ^= '%[1]s' & value ~= '^[0-9]+,[0-9]+,[0-9]+$' & d >= 0",
		"select * where key ^= '%[1]s' & nosuch(value) = 1",
		"select * where key ^= '%[1]s' & value = 1",
		"select key, 10 / (int(value) - int(value)) where key ^= '%[1]s'",
		"select * where key ^= '%[1]s' &",
		"select quantile(float(value), 0.5), count(1) where key ^= '%[1]s'",
		"select * where key = '%[1]s001' | key = '%[1]s002'",
		"select * where false & key ^= '%[1]s'",
		// unsatisfiable on their face (planned without any scan)
		"select * where key = '%[1]s001' & key = '%[1]s002'",
		"select key where key ^= '%[1]sx' & key ^= '%[1]sy'",
		"select count(1) where key < ''",
		"select * where key in ('%[1]s001') & key > '%[1]s5'",
		// function names written in back quotes and mixed case (resolved case-insensitively at run time)
		"select `upper`(key), `lower`(value), `cosine_distance`(`float_list`(1, 2), `float_list`(`strlen`(key), 2)) where key ^= '%[1]s'",
		"select key where key ^= '%[1]s' & `is_int`(value) & `strlen`(value) > 0",
		"select `l2_distance`(`int_list`(1, 2, 3), `int_list`(`strlen`(key), 2, 3)), `is_float`(value) where key ^= '%[1]s' limit 5",
		// concatenations whose left operand is a slice handed out by the storage
		"select key + '_%[1]s', value + '/' + key where key ^= '%[1]s'",
		"select key where key ^= '%[1]s' & value + '%[1]s' != 'g1%[1]s'",
		// groups keyed by floats that need many digits (the key text is made per statement)
		"select float(value) / 3.0 as f, count(1) as c, min(key) where key ^= '%[1]s' & value ~= '^[0-9]+(\\.5)?$' group by f",
		"select float(value) * 1000.5 as f, strlen(value) as l, count(1), group_concat(key, ',') where key ^= '%[1]s' & value ~= '^[0-9]+(\\.5)?$' group by f, l",
		"select float(value) + 123456.789 as f, sum(float(value)) where key ^= '%[1]s' & value ~= '^[0-9]+(\\.5)?$' group by f order by f desc",
		// reads of a single key, spelled in every way that pins one key
		"select * where key = '%[1]s001'",
		"select key, value where '%[1]s002' = key & value != 'zz'",
		"select * where key in ('%[1]s004')",
		"select * where key >= '%[1]s006' & key <= '%[1]s006'",
		"select key, upper(value) where key = '%[1]s007' | key = '%[1]s007'",
		// short form (no select clause)
		"where key ^= '%[1]s' limit 3",
		"where key ^= '%[1]s' & value ~= '^g[0-3]$'",
		"where key between '%[1]s002' and '%[1]s009' limit 1, 2",
		"where key ^= '%[1]s' & value != 'zz' limit 2, 4",
	}
	writes := []string{
		"put ('%[1]snew1', 'v1'), ('%[1]snew2', upper(key))",
		"put ('%[1]s001', 'rewritten')",
		"remove '%[1]s003', '%[1]snew1'",
		"delete where key ^= '%[1]s' & value ~= '^g1$'",
		"delete where key in ('%[1]s004', '%[1]s005')",
		"delete where key ^= '%[1]s01' limit 2, 3",
		"select count(1) where key ^= '%[1]s'",
	}
	out := make([]string, n)
	for i := range out {
		if mutable && r.Chance(1, 3) {
			out[i] = fmt.Sprintf(writes[r.Intn(len(writes))], p)
		} else {
			out[i] = fmt.Sprintf(pool[r.Intn(len(pool))], p)
		}
	}
	return out
}

type c19Out struct {
	status string
	rows   string
	err    string
	render string
	expl   string
}

func c19Exec(q string, st kvql.Storage, batch bool) c19Out {
	o := drive.Run(q, st, drive.Mode{Batch: batch, Size: 0, Cache: true})
	out := c19Out{status: o.Status(), expl: strings.Join(o.Explain, "|")}
	var b strings.Builder
	for _, r := range o.Rows {
		b.WriteString(drive.RowKey(r))
		b.WriteByte('\n')
	}
	out.rows = b.String()
	if err := o.Err(); err != nil {
		out.err = err.Error()
		texts, pan, _ := drive.Render(err, q, []int{0, 7})
		out.render = strings.Join(texts, "\n") + pan
	}
	if o.Panic != "" {
		out.err = "panic: " + o.Panic
	}
	return out
}

var c19Spell uint64 // process-wide counter: every respelling is new to this process

var c19QuotedFn = regexp.MustCompile("`[A-Za-z_0-9]+`\\(")

// c19Respell gives every back-quoted function name of q a letter-case pattern that this
// process has not used yet (function names are resolved case-insensitively, so the statement
// means the same; what the library remembers per spelling is then first touched concurrently).
func c19Respell(q string) string {
	return c19QuotedFn.ReplaceAllStringFunc(q, func(m string) string {
		n := atomic.AddUint64(&c19Spell, 1)
		b := []byte(strings.ToLower(m))
		bit := 0
		for i := range b {
			if b[i] >= 'a' && b[i] <= 'z' {
				if n>>uint(bit)&1 == 1 {
					b[i] -= 32
				}
				bit++
			}
		}
		return string(b)
	})
}

func (k c19) Run(c *rt.Ctx) {
	r := c.R
	rec := c.Rec
	G := []int{2, 3, 4, 8, 16}[r.Intn(5)]
	procs := []int{2, 4, 8, 16}[r.Intn(4)]
	storeMode := []string{"private", "shared-readonly", "shared-mutable"}[r.Intn(3)]
	prev := runtime.GOMAXPROCS(procs)
	defer runtime.GOMAXPROCS(prev)
	kvql.PlanBatchSize = []int{1, 2, 3, 5, 32}[r.Intn(5)] // set before the goroutines start
	rec.Inc("store:" + storeMode)

	type gplan struct {
		prefix string
		stmts  []string
		batch  []bool
		solo   []c19Out
		got    []c19Out
		seed   uint64
	}
	plans := make([]*gplan, G)
	var all []refstore.Pair
	for g := 0; g < G; g++ {
		p := &gplan{prefix: fmt.Sprintf("g%d_", g), seed: r.U64()}
		n := r.Range(6, 20)
		p.stmts = c19Statements(r, p.prefix, n, storeMode == "shared-mutable")
		p.batch = make([]bool, n)
		for i := range p.batch {
			p.batch[i] = r.Bool()
		}
		plans[g] = p
		all = append(all, c19Data(p.prefix, r.Range(10, 40))...)
	}
	if r.Chance(1, 5) {
		// every goroutine parses JSON documents of its own at the same time (several json() calls
		// per pair): anything the library remembers about "the last document" is then contended
		jpool := []string{
			"select key, json(value)['id'], json(value)['x'], json(value)['y'] where key ^= '%[1]s' & value ^= '{' & json(value)['tag'] != 't2'",
			"select key, json(value)['id'] as id where key ^= '%[1]s' & value ^= '{' & json(value)['x'] >= 1 order by id desc limit 6",
			"select json(value)['tag'] as t, count(1), group_concat(json(value)['id'], '+') where key ^= '%[1]s' & value ^= '{' group by t",
			"select key, upper(json(value)['id']) + json(value)['y'] as u where key ^= '%[1]s' & value ^= '{' & json(value)['id'] ^= '%[1]s'",
		}
		for _, p := range plans {
			for i := range p.stmts {
				p.stmts[i] = fmt.Sprintf(jpool[r.Intn(len(jpool))], p.prefix)
			}
		}
		rec.Inc("rounds_of_json_statements")
	}
	if c.Case%4 == 1 {
		// focus rounds: every goroutine runs statements of ONE kind at the same time, so that
		// whatever that kind of statement keeps outside its own plan and context is contended
		focus := [][]string{
			{ // vectors split from text
				"select key, l2_distance(list(1,2,3), split(value, ',')) as d where key ^= '%[1]s' & value ~= '^[0-9]+,[0-9]+,[0-9]+$' order by d, key limit 5",
				"select key, cosine_distance(split(value, ','), list(3,2,1)) as d where key ^= '%[1]s' & value ~= '^[0-9]+,[0-9]+,[0-9]+$' & d >= 0",
				"select key, l2_distance(split(value, ','), split(value, ',')) as z, cosine_distance(list(1,1,2), split(value, ',')) where key ^= '%[1]s' & value ~= '^[0-9]+,[0-9]+,[0-9]+$'",
			},
			{ // groups keyed by floats
				"select float(value) / 3.0 as f, count(1) as c, min(key) where key ^= '%[1]s' & value ~= '^[0-9]+(\\.5)?$' group by f",
				"select float(value) * 1000.5 as f, strlen(value) as l, count(1), group_concat(key, ',') where key ^= '%[1]s' & value ~= '^[0-9]+(\\.5)?$' group by f, l",
				"select float(value) + 123456.789 as f, sum(float(value)) where key ^= '%[1]s' & value ~= '^[0-9]+(\\.5)?$' group by f order by f desc",
			},
			{ // reads of one key
				"select * where key = '%[1]s001'", "select key, value where '%[1]s002' = key & value != 'zz'", "select * where key in ('%[1]s004')",
				"select * where key >= '%[1]s006' & key <= '%[1]s006'", "select key, upper(value) where key = '%[1]s007' | key = '%[1]s007'",
			},
			{ // named fields, regular expressions, lists
				"select key, int(value) as n, n * 2 as m, m + n where key ^= '%[1]s' & n >= 0 & m < 100",
				"select key, upper(value) as u where key ^= '%[1]s' & u ~= '^V[0-9]'",
				"select key, split(value, ',')[1] as p where key ^= '%[1]s' & 'x' in split(value, ',')",
				"select value, count(1) as c, sum(int(value)) as s where key ^= '%[1]s' group by value order by c desc, value limit 4",
			},
		}
		fp := focus[(c.Case/4)%len(focus)]
		for _, p := range plans {
			for i := range p.stmts {
				p.stmts[i] = fmt.Sprintf(fp[r.Intn(len(fp))], p.prefix)
				p.batch[i] = i%3 != 2
			}
		}
		rec.Inc("focus_rounds")
	}
	if c.Case%4 == 3 && (c.Case/4)%3 == 0 {
		// wave 15 (C19-aa): a focus round of its own for statements that turn integers into text -
		// a conversion buffer shared by all statements is only written by this kind of statement
		fp := []string{
			"select key, str(int(value)) as s, str(strlen(key) * 1000003) where key ^= '%[1]s' & is_int(value)",
			"select group_concat(strlen(key) * 7919, ','), group_concat(int(value), '+') where key ^= '%[1]s' & is_int(value)",
			"select key, str(int(value) * 1234567 + 89) + '/' + str(0 - strlen(key)) where key ^= '%[1]s' & is_int(value)",
			"select value, group_concat(int(value) * 100000 + strlen(key), ';') where key ^= '%[1]s' & is_int(value) group by value",
		}
		for _, p := range plans {
			for i := range p.stmts {
				p.stmts[i] = fmt.Sprintf(fp[(c.Case/12+i)%len(fp)], p.prefix)
				p.batch[i] = i%3 != 2
			}
		}
		rec.Inc("focus_rounds_integers_to_text")
	}
	if storeMode == "shared-readonly" && r.Chance(2, 3) {
		// the very same statement text in every goroutine, first in line (they start together):
		// anything the library keeps per query text or per function spelling is then shared
		common := []string{
			"select substr(value, 0, 1) as g, sum(strlen(key) + strlen(value)) as s, count(1) as c where key ^= 'g0_' group by g order by g",
			"select value, sum(strlen(value)) as s where key ^= 'g0_' group by value",
			"select key, upper(value) as u where key ^= 'g0_' & u != 'G1' order by u, key limit 7",
			"select count(1), max(key), min(value) where key ^= 'g0_' & value != 'zz'",
		}
		c1, c2 := common[r.Intn(len(common))], common[r.Intn(len(common))]
		for _, p := range plans {
			p.stmts = append([]string{c1, c2}, p.stmts...)
			p.batch = append([]bool{r.Bool(), r.Bool()}, p.batch...)
		}
		rec.Inc("rounds_with_a_common_statement")
	}
	// solo outcomes, sequentially, before any goroutine starts
	newStoreFor := func(p *gplan) *refstore.Store {
		if storeMode == "private" {
			var mine []refstore.Pair
			for _, x := range all {
				if strings.HasPrefix(x.K, p.prefix) {
					mine = append(mine, x)
				}
			}
			return refstore.New(mine)
		}
		return refstore.New(all)
	}
	for _, p := range plans {
		st := newStoreFor(p)
		st.NoLog = true
		for i, q := range p.stmts {
			p.solo = append(p.solo, c19Exec(q, st, p.batch[i]))
			rec.Eval(1)
		}
	}
	// concurrent round
	var inFlight, maxInFlight int64
	var order uint64 = 1469598103934665603
	var shared *refstore.Store
	if storeMode != "private" {
		shared = refstore.New(all)
		shared.NoLog = true
		shared.Jitter = true
		shared.JitterSeed = r.U64()
		shared.InFlight, shared.MaxInFlight, shared.OrderHash = &inFlight, &maxInFlight, &order
		shared.Tag = 0x9e3779b97f4a7c15
		shared.Arena = true // every goroutine is handed the same store-owned memory
	}
	var privates []*refstore.Store
	var pmu sync.Mutex
	var wg sync.WaitGroup
	start := make(chan struct{})
	var running int64
	var maxRunning int64
	for g, p := range plans {
		wg.Add(1)
		go func(g int, p *gplan) {
			defer wg.Done()
			var st kvql.Storage
			if shared != nil {
				st = shared.View(uint64(g+1) * 0x9e3779b97f4a7c15)
			} else {
				ps := newStoreFor(p)
				ps.NoLog = true
				ps.Jitter = true
				ps.JitterSeed = p.seed
				ps.InFlight, ps.MaxInFlight, ps.OrderHash = &inFlight, &maxInFlight, &order
				ps.Tag = uint64(g+1) * 0x9e3779b97f4a7c15
				ps.Arena = true
				pmu.Lock()
				privates = append(privates, ps)
				pmu.Unlock()
				st = ps
			}
			<-start
			for i, q := range p.stmts {
				n := atomic.AddInt64(&running, 1)
				for {
					m := atomic.LoadInt64(&maxRunning)
					if n <= m || atomic.CompareAndSwapInt64(&maxRunning, m, n) {
						break
					}
				}
				if strings.Contains(q, "`") {
					q = c19Respell(q)
				}
				p.got = append(p.got, c19Exec(q, st, p.batch[i]))
				atomic.AddInt64(&running, -1)
			}
		}(g, p)
	}
	close(start)
	wg.Wait()
	rec.Max("in_flight", atomic.LoadInt64(&maxRunning))
	if atomic.LoadInt64(&maxRunning) >= 2 {
		rec.Inc("overlapping_rounds")
		rec.Distinct(atomic.LoadUint64(&order))
	}
	// memory handed out by the storage belongs to the storage
	if shared != nil {
		privates = append(privates, shared)
	}
	for _, ps := range privates {
		rec.Inc("arenas_checked")
		if dmg := ps.ArenaDamage(); len(dmg) > 0 {
			c.Violation("storage-owned-memory-modified", storeMode+" / the library wrote into a key or value slice returned by the storage", func() rt.D {
				if len(dmg) > 8 {
					dmg = dmg[:8]
				}
				return rt.D{"store_mode": storeMode, "goroutines": G, "damaged_buffers": dmg, "statements_of_goroutine_0": plans[0].stmts}
			})
			return
		}
	}
	// compare
	for g, p := range plans {
		for i := range p.stmts {
			rec.Eval(1)
			rec.Inc("compared")
			a, b := p.solo[i], p.got[i]
			if strings.Contains(p.stmts[i], "`") {
				// respelled in the concurrent round: the texts that show the spelling are not compared
				a.expl, b.expl, a.render, b.render = "", "", "", ""
			}
			if a != b {
				what := "rows"
				switch {
				case a.status != b.status:
					what = "status " + a.status + " -> " + b.status
				case a.err != b.err:
					what = "error text"
				case a.render != b.render:
					what = "rendered error"
				case a.expl != b.expl:
					what = "explain"
				}
				q := p.stmts[i]
				c.Violation("concurrent-outcome-differs-from-solo", storeMode+" / "+what+" / "+rt.Shape(strings.ReplaceAll(q, p.prefix, "P_")), func() rt.D {
					return rt.D{"goroutine": g, "goroutines": G, "gomaxprocs": procs, "store_mode": storeMode, "statement": q, "batch": p.batch[i], "solo": a, "concurrent": b}
				})
				return
			}
		}
	}
	if c.Case%40 == 0 {
		rec.Sample(rt.D{"goroutines": G, "gomaxprocs": procs, "store_mode": storeMode, "statements_of_goroutine_0": plans[0].stmts, "max_in_flight": atomic.LoadInt64(&maxRunning)})
	}
}

func (o c19Out) String() string {
	return fmt.Sprintf("status=%s rows=%q err=%q", o.status, o.rows, o.err)
}
