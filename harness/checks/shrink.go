package checks

import (
	"sort"

	"kvqlverif/gen"
)

func nodeSize(n *gen.Node) int {
	s := 1
	for _, a := range n.A {
		s += nodeSize(a)
	}
	return s
}

// shrinkBool reduces a failing Boolean predicate to a smallest failing
// Boolean sub-tree (then tries to simplify its operands). fails must re-run
// the same oracle. At most budget re-executions. Used only for clustering and
// for the replay file — never for the verdict.
func shrinkBool(pred *gen.Node, fails func(*gen.Node) bool, budget int) *gen.Node {
	cur := pred
	for budget > 0 {
		var cands []*gen.Node
		cur.Walk(func(x *gen.Node) {
			if x != cur && x.T == gen.TB && x.K != gen.KBool {
				cands = append(cands, x)
			}
		})
		sort.SliceStable(cands, func(i, j int) bool { return nodeSize(cands[i]) < nodeSize(cands[j]) })
		found := false
		for _, cd := range cands {
			if budget <= 0 {
				break
			}
			budget--
			if fails(cd) {
				cur = cd
				found = true
				break
			}
		}
		if !found {
			break
		}
	}
	return cur
}

// shrinkOperands simplifies the operands of a failing tree in place on a
// clone: a child is replaced by one of its own same-typed descendants while
// the oracle still fails.
func shrinkOperands(root *gen.Node, fails func(*gen.Node) bool, budget int) *gen.Node {
	cur := root.Clone()
	changed := true
	for changed && budget > 0 {
		changed = false
		var visit func(n *gen.Node) bool
		visit = func(n *gen.Node) bool {
			for i, ch := range n.A {
				var cands []*gen.Node
				ch.Walk(func(x *gen.Node) {
					if x != ch && x.T == ch.T {
						cands = append(cands, x)
					}
				})
				sort.SliceStable(cands, func(a, b int) bool { return nodeSize(cands[a]) < nodeSize(cands[b]) })
				for _, cd := range cands {
					if budget <= 0 {
						return false
					}
					budget--
					n.A[i] = cd
					if fails(cur) {
						return true
					}
					n.A[i] = ch
				}
				if visit(ch) {
					return true
				}
			}
			return false
		}
		if visit(cur) {
			changed = true
		}
	}
	return cur
}
