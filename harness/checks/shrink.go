package checks

import (
	"sort"

	"kvqlverif/gen"
)

func nodeSize(n *gen.Node) int {
	s := 1
	for _, a := range n.A {
		s += nodeSize(a)
	}
	return s
}

// shrinkBool reduces a failing Boolean predicate to a smallest failing
// Boolean sub-tree (then tries to simplify its operands). fails must re-run
// the same oracle. At most budget re-executions. Used only for clustering and
// for the replay file — never for the verdict.
func shrinkBool(pred *gen.Node, fails func(*gen.Node) bool, budget int) *gen.Node {
	cur := pred
	for budget > 0 {
		var cands []*gen.Node
		cur.Walk(func(x *gen.Node) {
			if x != cur && x.T == gen.TB && x.K != gen.KBool {
				cands = append(cands, x)
			}
		})
		sort.SliceStable(cands, func(i, j int) bool { return nodeSize(cands[i]) < nodeSize(cands[j]) })
		found := false
		for _, cd := range cands {
			if budget <= 0 {
				break
			}
			budget--
			if fails(cd) {
				cur = cd
				found = true
				break
			}
		}
		if !found {
			break
		}
	}
	return cur
}

// shrinkOperands simplifies the operands of a failing tree in place on a
// clone: a child is replaced by one of its own same-typed descendants while
// the oracle still fails.
func shrinkOperands(root *gen.Node, fails func(*gen.Node) bool, budget int) *gen.Node {
	cur := root.Clone()
	changed := true
	for changed && budget > 0 {
		changed = false
		var visit func(n *gen.Node) bool
		visit = func(n *gen.Node) bool {
			for i, ch := range n.A {
				var cands []*gen.Node
				ch.Walk(func(x *gen.Node) {
					if x != ch && x.T == ch.T {
						cands = append(cands, x)
					}
				})
				sort.SliceStable(cands, func(a, b int) bool { return nodeSize(cands[a]) < nodeSize(cands[b]) })
				for _, cd := range cands {
					if budget <= 0 {
						return false
					}
					budget--
					n.A[i] = cd
					if fails(cur) {
						return true
					}
					n.A[i] = ch
				}
				if visit(ch) {
					return true
				}
			}
			return false
		}
		if visit(cur) {
			changed = true
		}
	}
	return cur
}

// shrinkStmt reduces a failing statement: drop LIMIT / ORDER BY, drop select
// fields that nothing refers to, simplify WHERE, simplify field expressions.
func shrinkStmt(s *gen.Stmt, fails func(*gen.Stmt) bool, budget int) *gen.Stmt {
	cur := *s
	cur.Fields = append([]gen.Field(nil), s.Fields...)
	try := func(cand gen.Stmt) bool {
		if budget <= 0 {
			return false
		}
		budget--
		if fails(&cand) {
			cur = cand
			return true
		}
		return false
	}
	if cur.HasLim {
		c := cur
		c.HasLim = false
		try(c)
	}
	if len(cur.OrderBy) > 0 {
		c := cur
		c.OrderBy = nil
		try(c)
	}
	for len(cur.OrderBy) > 1 {
		c := cur
		c.OrderBy = cur.OrderBy[:len(cur.OrderBy)-1]
		if !try(c) {
			break
		}
	}
	// WHERE -> true, or a smaller sub-tree
	if cur.Where != nil && cur.Kind != "put" && cur.Kind != "remove" {
		c := cur
		c.Where = gen.Bool(true)
		if !try(c) {
			w := shrinkBool(cur.Where, func(p *gen.Node) bool {
				c := cur
				c.Where = p
				return fails(&c)
			}, budget/3)
			budget -= budget / 3
			c := cur
			c.Where = w
			cur = c
		}
	}
	// drop fields not referenced by name
	referenced := func(name string) bool {
		if name == "" {
			return false
		}
		for _, g := range cur.GroupBy {
			if g == name {
				return true
			}
		}
		for _, o := range cur.OrderBy {
			if o.Name == name {
				return true
			}
		}
		used := false
		chk := func(n *gen.Node) {
			if n == nil {
				return
			}
			n.Walk(func(x *gen.Node) {
				if x.K == gen.KRef && x.Op == name {
					used = true
				}
			})
		}
		chk(cur.Where)
		for _, f := range cur.Fields {
			chk(f.E)
		}
		return used
	}
	for i := len(cur.Fields) - 1; i >= 0 && len(cur.Fields) > 1; i-- {
		f := cur.Fields[i]
		if referenced(f.Alias) || (f.Alias == "" && (f.E.K == gen.KKey || f.E.K == gen.KValue) && len(cur.OrderBy) > 0) {
			continue
		}
		c := cur
		c.Fields = append(append([]gen.Field(nil), cur.Fields[:i]...), cur.Fields[i+1:]...)
		try(c)
	}
	// simplify field expressions
	for i := range cur.Fields {
		if budget <= 0 {
			break
		}
		fi := i
		wrap := &gen.Node{K: gen.KCall, Op: "_", T: cur.Fields[fi].E.T, A: []*gen.Node{cur.Fields[fi].E}}
		sm := shrinkOperands(wrap, func(w *gen.Node) bool {
			c := cur
			c.Fields = append([]gen.Field(nil), cur.Fields...)
			c.Fields[fi].E = w.A[0]
			return fails(&c)
		}, 8)
		budget -= 8
		cur.Fields = append([]gen.Field(nil), cur.Fields...)
		cur.Fields[fi].E = sm.A[0]
	}
	// pairs / keys of write statements
	for len(cur.Pairs) > 1 {
		c := cur
		c.Pairs = cur.Pairs[:len(cur.Pairs)-1]
		if !try(c) {
			c2 := cur
			c2.Pairs = cur.Pairs[1:]
			if !try(c2) {
				break
			}
		}
	}
	for len(cur.Keys) > 1 {
		c := cur
		c.Keys = cur.Keys[:len(cur.Keys)-1]
		if !try(c) {
			break
		}
	}
	out := cur
	return &out
}
