#!/usr/bin/env python3
"""Prints the per-property summary table of DESIGN.md section 7 from seeded/MATRIX.tsv and the meta.json files.
usage: seeded_table.py [matrix.tsv]"""
import json, os, sys, glob, collections
V = os.path.dirname(os.path.dirname(os.path.abspath(__file__)))
mx = sys.argv[1] if len(sys.argv) > 1 else os.path.join(V, "seeded/MATRIX.tsv")
rows = collections.defaultdict(dict)
for l in open(mx):
    p = l.rstrip("\n").split("\t")
    if len(p) >= 3: rows[p[0]][p[1]] = p[2]
kept = collections.Counter(); own = collections.Counter(); others = collections.defaultdict(collections.Counter)
only_own = 0; inconcl = 0; total = 0; imported = 0
for d in sorted(glob.glob(os.path.join(V, "seeded/C*-[a-z]*"))):
    sid = os.path.basename(d); m = json.load(open(os.path.join(d, "meta.json"))); imported += 1
    ok = not m.get("excluded") and m.get("applies") and m.get("compiles") and m.get("existing_suite_passes_with_change") and m.get("demo_fails_with_change") and m.get("demo_passes_without_change")
    if not ok or sid not in rows or "*" in rows[sid]: continue
    prop = sid.split("-")[0]; judge = m.get("judged_under") or prop
    det = sorted(c for c, rc in rows[sid].items() if rc == "1")
    inconcl += sum(1 for rc in rows[sid].values() if rc not in ("0", "1"))
    kept[prop] += 1; total += 1
    if judge in det: own[prop] += 1
    if det == [judge]: only_own += 1
    for c in det:
        if c != judge: others[prop][c] += 1
print("| property | kept | own check reports | other checks that also report (number of these defects) |\n|---|---|---|---|")
for p in sorted(kept):
    print("| %s | %d | %d | %s |" % (p, kept[p], own[p], " ".join("%s(%d)" % (c, n) for c, n in sorted(others[p].items()))))
print("\nimported %d, kept and run %d, reported by own (or judged-under) check %d, by that check only %d, inconclusive cells %d" % (imported, total, sum(own.values()), only_own, inconcl))
