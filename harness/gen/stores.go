package gen

import (
	"fmt"
	"sort"
	"strconv"

	"kvqlverif/refstore"
	"kvqlverif/rt"
)

type Pair = refstore.Pair

// StoreFamily names; each family fixes what the values look like so that
// generators know which atoms are evaluable.
const (
	FTiny   = "tiny"   // keys over {a,b,c} up to length 3; small text values incl. empty
	FNum    = "num"    // values are plain decimal integers (0, negatives included)
	FFloat  = "float"  // values are plain decimals (dyadic and non-dyadic)
	FMixed  = "mixed"  // integers, decimals, text, empty, JSON objects
	FBinary = "binary" // NUL, 0xff, quotes, non-UTF-8 in keys and values
	FWide   = "wide"   // 70..200 pairs, integer values (several batches at size 32)
	FTies   = "ties"   // few distinct values, many duplicates
	FRel    = "rel"    // values derived from their keys (upper(k), k, k+k, strlen(k), ...)
	FJSON   = "json"   // every value is a JSON document (nested objects, arrays of objects)
	FSep    = "sep"    // keys and values that begin or end with separator characters (: | , NUL): tuples that collide when joined
)

type Store struct {
	Family string
	Pairs  []Pair
}

func (s *Store) Keys() []string {
	out := make([]string, len(s.Pairs))
	for i, p := range s.Pairs {
		out[i] = p.K
	}
	return out
}

func (s *Store) ValuesInt() bool   { return s.Family == FNum || s.Family == FWide }
func (s *Store) ValuesFloat() bool { return s.Family == FFloat }

func dedupSort(ps []Pair) []Pair {
	m := map[string]string{}
	for _, p := range ps {
		m[p.K] = p.V
	}
	keys := make([]string, 0, len(m))
	for k := range m {
		keys = append(keys, k)
	}
	sort.Strings(keys)
	out := make([]Pair, len(keys))
	for i, k := range keys {
		out[i] = Pair{K: k, V: m[k]}
	}
	return out
}

var tinyVals = []string{"", "a", "b", "ab", "x", "1", "2", "10", "A", "abc"}
var abc = []string{"a", "b", "c"}

func tinyKey(r *rt.Rand) string {
	n := r.Range(1, 3)
	s := ""
	for i := 0; i < n; i++ {
		s += abc[r.Intn(3)]
	}
	return s
}

var intVals = []string{"0", "1", "2", "3", "5", "7", "10", "12", "-1", "-3", "-40", "25", "100", "999", "42", "6", "8", "9"}
var floatVals = []string{"0.5", "1.5", "2.0", "-0.25", "0.25", "3.75", "10.5", "0.1", "-2.5", "7.125", "2.5", "1.0", "100.0", "0.3"}
var textVals = []string{"", "a", "Ab", "hello", "x1", "a,b", "a,b,c", ",", "zz", "val_1", "val_2", "K", "k"}
var jsonVals = []string{`{"x":1,"y":"s"}`, `{"x":"str","list":[1,2,3]}`, `{"x":2.5,"o":{"y":"deep"}}`, `{"list":["a","b"],"x":true}`, `{}`, `{"x":null}`, `{"x":10,"y":"t"}`}

// NewStore builds a store of the family from the stream.
func NewStore(r *rt.Rand, family string) *Store {
	var ps []Pair
	switch family {
	case FTiny:
		n := r.Range(0, 9)
		for i := 0; i < n; i++ {
			ps = append(ps, Pair{K: tinyKey(r), V: tinyVals[r.Intn(len(tinyVals))]})
		}
	case FNum:
		n := r.Range(1, 14)
		for i := 0; i < n; i++ {
			ps = append(ps, Pair{K: numKey(r), V: intVals[r.Intn(len(intVals))]})
		}
	case FFloat:
		n := r.Range(1, 12)
		for i := 0; i < n; i++ {
			ps = append(ps, Pair{K: numKey(r), V: floatVals[r.Intn(len(floatVals))]})
		}
	case FMixed:
		n := r.Range(2, 14)
		for i := 0; i < n; i++ {
			var v string
			switch r.Intn(5) {
			case 0:
				v = intVals[r.Intn(len(intVals))]
			case 1:
				v = floatVals[r.Intn(len(floatVals))]
			case 2, 3:
				v = textVals[r.Intn(len(textVals))]
			default:
				v = jsonVals[r.Intn(len(jsonVals))]
			}
			ps = append(ps, Pair{K: numKey(r), V: v})
		}
	case FSep:
		// tuples (key, value) that are different but have equal joins under a one-character separator
		sets := [][2][2]string{{{"a:", "b"}, {"a", ":b"}}, {{"b|", "a"}, {"b", "|a"}}, {{"c,", "d"}, {"c", ",d"}}, {{"e\x00", "f"}, {"e", "\x00f"}}, {{"g::", "h"}, {"g:", ":h"}}, {{"a:b", "c"}, {"a", "b:c"}}}
		for i := 0; i < r.Range(1, 3); i++ {
			set := sets[r.Intn(len(sets))]
			ps = append(ps, Pair{K: set[0][0], V: set[0][1]}, Pair{K: set[1][0], V: set[1][1]})
		}
		extra := []string{"a", "b", ":", "x:", ":y", "k1", "k2", "k3", "|", ","}
		for i := 0; i < r.Range(0, 6); i++ {
			ps = append(ps, Pair{K: extra[r.Intn(len(extra))] + string(rune('0'+i)), V: extra[r.Intn(len(extra))]})
		}
	case FJSON:
		docs := append([]string{" {\"x\":5,\"y\":\"lead\",\"o\":{\"y\":\"sp\"},\"list\":[1]}", "\n{\n  \"x\": 6,\n  \"y\": \"pretty\",\n  \"list\": [2, 3]\n}", `{"x":3,"y":"w","o":{"y":"q","z":[1,2]},"list":[{"a":1},{"a":2}]}`, `{"x":"7","y":"","o":{},"list":[]}`, `{"x":4,"y":"s","o":{"y":"deep","o":{"y":"deeper"}},"list":[1,2,3]}`}, jsonVals[:4]...)
		n := r.Range(2, 40)
		for i := 0; i < n; i++ {
			ps = append(ps, Pair{K: numKey(r), V: docs[r.Intn(len(docs))]})
		}
	case FBinary:
		pool := []string{"\x00", "a\x00b", "\xff", "a\xff", "it's", `say "hi"`, "\xc3\x28", "caf\xc3\xa9", "`bt`", "a b", "\t", "a\nb", "~", "}", "\xff\xff"}
		n := r.Range(1, 8)
		for i := 0; i < n; i++ {
			ps = append(ps, Pair{K: pool[r.Intn(len(pool))], V: pool[r.Intn(len(pool))]})
		}
		if r.Bool() {
			ps = append(ps, Pair{K: "a", V: "1"}, Pair{K: "b", V: ""})
		}
	case FWide:
		n := r.Range(70, 200)
		if r.Chance(1, 4) {
			n = []int{31, 32, 33, 63, 64, 65, 96, 97}[r.Intn(8)]
		}
		for i := 0; i < n; i++ {
			ps = append(ps, Pair{K: fmt.Sprintf("k%03d", i), V: strconv.Itoa((i*7 + 3) % 50)})
		}
	case FRel:
		n := r.Range(2, 40)
		for i := 0; i < n; i++ {
			k := numKey(r)
			var v string
			switch r.Intn(6) {
			case 0:
				v = asciiUp(k)
			case 1:
				v = k
			case 2:
				v = k + k
			case 3:
				v = strconv.Itoa(len(k))
			case 4:
				v = k + "," + asciiUp(k)
			default:
				v = "x"
			}
			ps = append(ps, Pair{K: k, V: v})
		}
	case FTies:
		n := r.Range(3, 16)
		vals := []string{"1", "2", "2", "3", "x", "x", "y", ""}
		for i := 0; i < n; i++ {
			ps = append(ps, Pair{K: numKey(r), V: vals[r.Intn(len(vals))]})
		}
	}
	if len(ps) > 0 && family != FWide && r.Chance(1, 8) {
		// a pair stored under the empty key: a key like any other, the smallest one
		ps = append(ps, Pair{K: "", V: ps[r.Intn(len(ps))].V})
	}
	return &Store{Family: family, Pairs: dedupSort(ps)}
}

func asciiUp(s string) string {
	b := []byte(s)
	for i, c := range b {
		if c >= 'a' && c <= 'z' {
			b[i] = c - 32
		}
	}
	return string(b)
}

var keyPrefixes = []string{"k", "k1", "a", "ab", "b", "key", "m", "", "z"}

func numKey(r *rt.Rand) string {
	p := keyPrefixes[r.Intn(len(keyPrefixes))]
	switch r.Intn(4) {
	case 0:
		return p + strconv.Itoa(r.Intn(20))
	case 1:
		return p + fmt.Sprintf("%02d", r.Intn(30))
	case 2:
		return p + abc[r.Intn(3)]
	}
	if p == "" {
		return "q" + strconv.Itoa(r.Intn(5))
	}
	return p
}

// Dense returns n pairs k000.. with values produced by f.
func Dense(n int, prefix string, f func(i int) string) []Pair {
	ps := make([]Pair, n)
	for i := 0; i < n; i++ {
		ps[i] = Pair{K: fmt.Sprintf("%s%03d", prefix, i), V: f(i)}
	}
	return ps
}

var families = []string{FTiny, FNum, FFloat, FMixed, FBinary, FWide, FTies, FRel}

func AnyFamily(r *rt.Rand) string { return families[r.Intn(len(families))] }

// KeyLiterals returns literals related to the store's keys: the keys, their
// prefixes, near misses and a few fixed ones.
func (s *Store) KeyLiterals(r *rt.Rand) []string {
	set := map[string]bool{"": true, "a": true, "k": true, "zz": true}
	for _, p := range s.Pairs {
		if !literalSafe(p.K) {
			continue
		}
		set[p.K] = true
		if len(p.K) > 1 {
			set[p.K[:len(p.K)-1]] = true
			set[p.K[:1]] = true
		}
		if r.Chance(1, 3) {
			set[p.K+"0"] = true
		}
	}
	out := make([]string, 0, len(set))
	for k := range set {
		out = append(out, k)
	}
	sort.Strings(out)
	return out
}

// literalSafe: bytes that can stand inside a quoted literal - also bytes >= 0x80 (the lexer
// is byte based), so that keys such as "a\xff" become literals of prefix and range tests.
func literalSafe(s string) bool {
	for i := 0; i < len(s); i++ {
		c := s[i]
		if c < 0x20 || c == 0x7f || c == '\'' || c == '"' || c == '`' {
			return false
		}
	}
	return true
}

// printable: usable inside a quoted literal (no quote characters at all so
// that either quote style works; no control bytes).
func printable(s string) bool {
	for i := 0; i < len(s); i++ {
		c := s[i]
		if c < 0x20 || c >= 0x7f || c == '\'' || c == '"' || c == '`' {
			return false
		}
	}
	return true
}

func Printable(s string) bool { return printable(s) }
