#!/bin/bash
# Entry point named in MANIFEST.json:  ./run.sh <ID> quick|thorough [--replay <file>]
#   rebuilds the harness against /repo's current working tree (or $VERIF_REPO) with -tags verif,
#   then runs the coordinator. Exit 0 held / 1 violation / 2 inconclusive.
set -u
cd "$(dirname "$0")" || exit 2
VERIF=$(pwd)
export GOFLAGS=-mod=mod GOPROXY=off GOSUMDB=off GOTOOLCHAIN=local GONOSUMDB='*' GONOSUMCHECK=1 GOFLAGS="-mod=mod"
export VERIF_DIR="$VERIF"
REPO=${VERIF_REPO:-/repo}
WORK="$VERIF/.work"
mkdir -p "$WORK/bin" "$WORK/mod"

build() { # $1 = race|norace
  local tag; tag=$(echo "$REPO" | tr '/' '_')
  local out="$WORK/bin/kvcheck$tag" extra=""
  if [ "$1" = race ]; then out="$WORK/bin/kvcheck-race$tag"; extra="-race"; fi
  # go.mod copy with the replace pointing at the tree under test
  local modf="$WORK/mod/go.$(echo "$REPO" | tr '/' '_').mod"
  sed "s#=> /repo#=> $REPO#" "$VERIF/harness/go.mod" > "$modf"
  cp "$REPO/go.sum" "${modf%.mod}.sum" 2>/dev/null || cp "$VERIF/harness/go.sum" "${modf%.mod}.sum"
  ( cd "$VERIF/harness" && go build $extra -tags verif -modfile="$modf" -o "$out" ./cmd/kvcheck ) 2> "$WORK/build.$1.log"
  local rc=$?
  if [ $rc -ne 0 ]; then
    echo "INCONCLUSIVE property=${ID:-build} reason=build-failed (see below)"; head -30 "$WORK/build.$1.log"; exit 2
  fi
  BIN="$out"
}

build_fuzz() { # coverage-instrumented test binary of harness/fuzzq (C06 stage 4); sets FZBIN
  local tag; tag=$(echo "$REPO" | tr '/' '_')
  FZBIN="$WORK/bin/fuzzq$tag.test"
  ( cd "$VERIF/harness" && go test -tags verif -modfile="$WORK/mod/go.$tag.mod" -c -fuzz FuzzStatement -o "$FZBIN" ./fuzzq ) 2> "${1:-$WORK/build.fuzz.log}"
}

if [ "${1:-}" = "--build-only" ]; then
  ID=build; build norace; build race; build_fuzz || echo "note: fuzz binary did not build (see $WORK/build.fuzz.log)"; echo "harness built: $WORK/bin"; exit 0
fi

ID=${1:?usage: run.sh <ID> quick|thorough [--replay file]}
TIER=${2:-${VERIF_TIER:-quick}}
shift; shift || true
MODE=norace
[ "$ID" = C19 ] && MODE=race
build $MODE

if [ "${1:-}" = "--replay" ]; then
  exec "$BIN" replay -file "$2"
fi
if [ "$ID" = C06 ] && [ "${VERIF_NO_FUZZ:-0}" != 1 ]; then
  # coverage-guided stage: go's native fuzzing engine over the same monitors (harness/fuzzq).
  # The budget is a number of executions, not a time; the wall-clock limit is only a watchdog.
  FZ="$WORK/C06-$TIER${VERIF_WORK_SUFFIX:-}.fuzz"
  rm -rf "$FZ"; mkdir -p "$FZ"
  if build_fuzz "$FZ/build.log"; then
    execs=300000; limit=600
    [ "$TIER" = thorough ] && { execs=30000000; limit=3600; }
    execs=${VERIF_FUZZ_EXECS:-$execs}
    ( cd "$FZ" && timeout -s QUIT $limit "$FZBIN" -test.run '^$' -test.fuzz FuzzStatement -test.fuzztime "${execs}x" -test.parallel "${VERIF_FUZZ_PAR:-12}" -test.fuzzcachedir "$FZ/cache" > "$FZ/log" 2>&1; echo "exit=$?" > "$FZ/exit" )
  else
    echo "exit=build-failed" > "$FZ/exit"
  fi
  export VERIF_FUZZ_DIR="$FZ"
fi
if [ "$ID" = C19 ]; then
  export VERIF_RACE_DIR="$WORK/C19-$TIER${VERIF_WORK_SUFFIX:-}.race"
  export GORACE="halt_on_error=0 log_path=$VERIF_RACE_DIR/race"
  rm -rf "$VERIF_RACE_DIR"; mkdir -p "$VERIF_RACE_DIR"
fi
exec "$BIN" run -prop "$ID" -tier "$TIER"
