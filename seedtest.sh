#!/bin/bash
# seedtest.sh <patch> <ID> [tier] : apply a seeded defect to /repo, run one check, undo.
# Never leaves /repo modified. Prints the check's verdict lines and exit code.
set -u
PATCH=$(realpath "$1"); ID=$2; TIER=${3:-quick}
cd /repo || exit 2
if [ -n "$(git status --porcelain --untracked-files=no)" ]; then echo "repo not clean"; exit 2; fi
if git apply --check "$PATCH" 2>/dev/null; then git apply "$PATCH"
elif git apply -3 "$PATCH" >/dev/null 2>&1 && [ -z "$(git diff --name-only --diff-filter=U)" ]; then git reset -q; echo "SEEDTEST applied with 3-way merge"
else git checkout -- . 2>/dev/null; git reset -q --hard HEAD; echo "SEEDTEST patch does not apply: $PATCH"; exit 3; fi
trap 'git -C /repo checkout -- . ' EXIT
cd /verif && ./run.sh "$ID" "$TIER" > .work/seedtest.$ID.out 2>&1
rc=$?
grep -E '^(VIOLATION|INCONCLUSIVE|SUMMARY|KNOWN)' .work/seedtest.$ID.out | head -8
grep -A1 '^VIOLATION' .work/seedtest.$ID.out | grep oracle | head -5
echo "SEEDTEST $ID $(basename $(dirname $PATCH))/$(basename $PATCH) exit=$rc"
exit 0
