package checks

import (
	"fmt"
	"math"
	"sort"
	"strings"

	"kvqlverif/drive"
	"kvqlverif/refstore"
	"kvqlverif/rt"
)

// C08 — LIMIT returns exactly the requested slice of the unlimited result.
// Differential against the same statement without the limit, over an
// exhaustive (offset, count, result size, batch size) grid.

type c08 struct{ rt.Base }

func init() { rt.Register(&c08{}) }

func (c08) ID() string { return "C08" }

var c08Kinds = []string{"plain", "plain-mget", "plain-full", "plain-named", "ordered", "aggr", "aggr-ordered", "aggr-inter", "aggr-inter-ordered", "aggr-all", "delete", "delete-mget", "delete-full", "plain-filtered", "delete-filtered", "delete-mget-filtered", "delete-mget-empty"}

// counts near the top of the integer range ("everything after the offset")
var c08Huge = []int{math.MaxInt64, math.MaxInt64 - 1, 1 << 62}

type c08Cell struct {
	B    int
	R    int // result size
	Kind string
}

var c08S32 = []int{0, 1, 2, 30, 31, 32, 33, 34, 63, 64, 65, 66, 95, 96, 97}

func c08Cells(tier string) []c08Cell {
	var out []c08Cell
	bs := []int{1, 2, 3}
	if tier == "thorough" {
		bs = []int{1, 2, 3, 4, 5, 8}
	}
	for _, b := range bs {
		for r := 0; r <= 4*b+1; r++ {
			for _, k := range c08Kinds {
				out = append(out, c08Cell{b, r, k})
			}
		}
	}
	r32 := c08S32
	if tier != "thorough" {
		r32 = []int{0, 1, 31, 32, 33, 64, 65, 97}
	}
	for _, r := range r32 {
		for _, k := range c08Kinds {
			out = append(out, c08Cell{32, r, k})
		}
	}
	return out
}

func (c08) NumCases(tier string) int    { return len(c08Cells(tier)) }
func (c08) Exhaustive(tier string) bool { return true }

func (c08) Rule() string {
	return "exhaustive grid: per batch size B in {1,2,3} (quick) / {1,2,3,4,5,8} (thorough): offset 0..3B+1 x count 0..3B+1 x result size 0..4B+1; for B=32 offsets/counts/sizes around multiples of 32; x {plain over prefix/point-read/full scans, plain with a named field used by the filter, ordered with ties, aggregated (one group per pair), aggregated with groups interleaved in key order, each also ordered, aggregated without GROUP BY (one row), delete over prefix/point-read/full scans} x {row, batch}; 'limit n' and 'limit 0,n' both used; every offset also with counts MaxInt64, MaxInt64-1 and 2^62. A grid point is non-trivial when offset+count > 0 and the unlimited result is non-empty; distinct by (kind,B,r,s,n,mode)."
}

func (c08) Assumptions() []string {
	return []string{"the unlimited statement's own result is the reference (C01/C07/C09 judge that result)", "with ORDER BY ties any valid sorted order is accepted: the sort-key sequence must equal that of the slice and rows must come from the unlimited result"}
}

func (c08) Gates(tier string, m map[string]int64) []rt.Gate {
	return []rt.Gate{
		rt.GateMin("grid points compared", m, "grid_points", 10000),
		rt.GateMin("offset multiple of batch size (>0)", m, "offset_multiple_of_B", 100),
		rt.GateMin("grid points spelled with zero-padded parameters", m, "zero_padded_parameters", 100),
		rt.GateMin("slice beyond the end", m, "beyond_end", 100),
		rt.GateMin("delete grid points", m, "kind:delete", 100),
		rt.GateMin("delete over point reads grid points", m, "kind:delete-mget", 100),
		rt.GateMin("grid points over a prefix scan whose filter rejects pairs inside the window", m, "kind:plain-filtered", 100),
		rt.GateMin("aggregate (limit pushed down) grid points", m, "kind:aggr", 100),
		rt.GateMin("aggregate grid points with groups interleaved in key order", m, "kind:aggr-inter", 100),
		rt.GateMin("grid points with a count near the top of the integer range", m, "huge_counts", 100),
	}
}

// store with r matching pairs (prefix k) surrounded by non-matching ones;
// values tie in groups of three for the ordered kinds.
func c08Store(r int, kind string) []refstore.Pair {
	var ps []refstore.Pair
	ps = append(ps, refstore.Pair{K: "j1", V: "zz"}, refstore.Pair{K: "j2", V: "zz"})
	for i := 0; i < r; i++ {
		v := fmt.Sprintf("v%03d", (i*7)%1000/3) // ties in runs
		if kind == "aggr" || kind == "aggr-ordered" {
			v = fmt.Sprintf("g%03d", (i*37)%997) // one group per pair, scrambled order
		}
		if strings.HasPrefix(kind, "aggr-inter") {
			// about r/3 groups whose members are interleaved in key order: every group has
			// members after the first member of every other group
			v = fmt.Sprintf("h%03d", (i%((r+2)/3))*7%10)
		}
		ps = append(ps, refstore.Pair{K: fmt.Sprintf("k%03d", i), V: v})
		if strings.HasSuffix(kind, "-filtered") && i%3 != 2 {
			// pairs inside the scanned region that the rest of the filter rejects: the window
			// counts the pairs that pass, not the pairs read
			ps = append(ps, refstore.Pair{K: fmt.Sprintf("k%03d_", i), V: "drop"})
		}
	}
	if strings.HasSuffix(kind, "-filtered") {
		ps = append(ps, refstore.Pair{K: "k", V: "drop"}, refstore.Pair{K: "kzz", V: "drop"})
	}
	ps = append(ps, refstore.Pair{K: "m1", V: "zz"})
	if strings.HasSuffix(kind, "-mget-empty") && r > 0 {
		ps = append(ps, refstore.Pair{K: "", V: "v000"})
	}
	return refstore.New(ps).Pairs() // key order
}

// c08Where is the filter of a kind: prefix scan, point reads (with absent keys
// in the list) or full scan, all selecting the r pairs with prefix k.
func c08Where(kind string, r int) string {
	switch {
	case strings.HasSuffix(kind, "-mget-filtered"):
		// point reads combined through the symbol & with a condition that rejects listed,
		// stored pairs (wave 14, C08-z: the unlimited DELETE removed every listed key, so the
		// limited one was no longer a slice of it)
		var b strings.Builder
		b.WriteString("key in ('k999', 'k', 'kzz'")
		for i := r - 1; i >= 0; i-- {
			fmt.Fprintf(&b, ", 'k%03d', 'k%03d_'", i, i)
		}
		b.WriteString(") & value != 'drop'")
		return b.String()
	case strings.HasSuffix(kind, "-mget-empty"):
		// the empty key is a key like any other: it is stored, listed and removed (wave 15, C08-ab:
		// the direct removal of an unlimited DELETE skipped it, the limited statements did not)
		var b strings.Builder
		b.WriteString("key in ('k999'")
		for i := r - 1; i >= 0; i-- {
			fmt.Fprintf(&b, ", 'k%03d'", i)
			if i == r/2 {
				b.WriteString(", ''")
			}
		}
		b.WriteString(")")
		return b.String()
	case strings.HasSuffix(kind, "-mget"):
		var b strings.Builder
		b.WriteString("key in ('k999'")
		for i := r - 1; i >= 0; i-- {
			fmt.Fprintf(&b, ", 'k%03d'", i)
			if i%5 == 0 {
				fmt.Fprintf(&b, ", 'kx%d'", i)
			}
			if i%3 == 1 {
				fmt.Fprintf(&b, ", 'k%03dx'", i) // an absent key sorting between two stored ones
			}
		}
		b.WriteString(")")
		return b.String()
	case strings.HasSuffix(kind, "-full"):
		return "value != 'zz'"
	case strings.HasSuffix(kind, "-filtered"):
		return "key ^= 'k' & value != 'drop'"
	}
	return "key ^= 'k'"
}

func c08Base(kind string, r int) string {
	w := c08Where(kind, r)
	switch kind {
	case "ordered":
		return "select key, value where " + w + " order by value desc"
	case "aggr", "aggr-inter":
		return "select value, count(1), min(key) where " + w + " group by value"
	case "plain-named": // a named field used by the filter and shown: the column must stay with its row
		return "select key, int(substr(key, 1, 3)) * 7 as v7, value where " + w + " & v7 >= 0"
	case "aggr-all": // no GROUP BY: one row, the limit still applies to it
		return "select count(1), max(key), sum(strlen(value)) where " + w
	case "aggr-inter-ordered":
		return "select value, count(1) as c, sum(strlen(key)) where " + w + " group by value order by value"
	case "aggr-ordered":
		return "select value, count(1) as c, max(key) where " + w + " group by value order by value desc"
	}
	return "select * where " + w
}

func (k c08) Run(c *rt.Ctx) {
	cell := c08Cells(c.Tier)[c.Case]
	B := cell.B
	var offs []int
	if B == 32 {
		offs = c08S32
		if !c.Thorough() {
			offs = []int{0, 1, 31, 32, 33, 63, 64, 65, 96}
		}
	} else {
		for i := 0; i <= 3*B+1; i++ {
			offs = append(offs, i)
		}
	}
	pairs := c08Store(cell.R, cell.Kind)
	for _, batch := range []bool{false, true} {
		mode := drive.Mode{Batch: batch, Size: B, Cache: true}
		base := c08Base(cell.Kind, cell.R)
		un := drive.Run(base, refstore.New(pairs), mode)
		c.Rec.Eval(1)
		if un.Status() != "ok" {
			if un.Status() == "panic" {
				c.Violation("crash", "unlimited statement panics: "+un.Frame, func() rt.D { return rt.D{"query": base, "observed": outcomeBrief(un)} })
			} else {
				c.Rec.NotJudged("unlimited statement failed: " + firstWords(un.ErrText()))
			}
			continue
		}
		if len(un.Rows) != cell.R && !strings.HasPrefix(cell.Kind, "aggr-inter") && cell.Kind != "aggr-all" {
			c.Rec.NotJudged("unlimited result size differs from the steered size")
		}
		if strings.HasPrefix(cell.Kind, "delete") {
			// "what the statement yields without the limit" is what the unlimited DELETE itself
			// removes: the limited statements are judged against that set, in key order
			qd := "delete where " + c08Where(cell.Kind, cell.R)
			st := refstore.New(pairs)
			od := drive.Run(qd, st, mode)
			c.Rec.Eval(1)
			if od.Status() != "ok" {
				if od.Status() == "panic" || od.Status() == "runaway" {
					c.Violation("crash", "unlimited delete panics: "+od.Frame, func() rt.D { return rt.D{"query": qd, "observed": outcomeBrief(od)} })
				} else {
					c.Rec.NotJudged("unlimited delete failed: " + firstWords(od.ErrText()))
				}
				continue
			}
			leftKeys := map[string]bool{}
			for _, p := range st.Pairs() {
				leftKeys[p.K] = true
			}
			var gone [][]string
			for _, p := range pairs {
				if !leftKeys[p.K] {
					gone = append(gone, []string{drive.Norm([]byte(p.K))})
				}
			}
			c.Rec.Inc("unlimited_deletes_run")
			if len(gone) != len(un.Rows) {
				c.Rec.Inc("unlimited_delete_differs_from_select")
			}
			un = &drive.Outcome{Rows: gone}
		}
		for _, s := range offs {
			for _, n := range offs {
				k.point(c, cell, pairs, mode, base, un, s, n)
			}
			for _, n := range c08Huge {
				k.point(c, cell, pairs, mode, base, un, s, n)
				c.Rec.Inc("huge_counts")
			}
		}
	}
}

func (k c08) point(c *rt.Ctx, cell c08Cell, pairs []refstore.Pair, mode drive.Mode, base string, un *drive.Outcome, s, n int) {
	rec := c.Rec
	lim := fmt.Sprintf(" limit %d, %d", s, n)
	if s == 0 && n%2 == 1 {
		lim = fmt.Sprintf(" limit %d", n)
	}
	if (s*7+n)%4 == 1 && n < 1000 {
		// the parameters are decimal integer literals however they are padded: 010 is ten
		rec.Inc("zero_padded_parameters")
		lim = fmt.Sprintf(" limit %02d, %03d", s, n)
		if s == 0 && n%2 == 0 {
			lim = fmt.Sprintf(" limit %03d", n)
		}
	}
	lo, hi := s, len(un.Rows)
	if lo > len(un.Rows) {
		lo = len(un.Rows)
	}
	if n < hi-lo { // no s+n: counts go up to MaxInt64
		hi = lo + n
	}
	beyond := n > len(un.Rows) || s+n > len(un.Rows)
	want := un.Rows[lo:hi]
	rec.Inc("grid_points")
	rec.Inc("kind:" + cell.Kind)
	if s > 0 && s%cell.B == 0 {
		rec.Inc("offset_multiple_of_B")
	}
	if beyond {
		rec.Inc("beyond_end")
	}
	if (s > 0 || n > 0) && len(un.Rows) > 0 {
		rec.DistinctS(fmt.Sprintf("%s/%d/%d/%d/%d/%v", cell.Kind, cell.B, cell.R, s, n, mode.Batch))
	}
	cluster := func(what string) string {
		rel := "skip<batch"
		switch {
		case s == 0:
			rel = "no offset"
		case s%cell.B == 0:
			rel = "offset multiple of batch size"
		case s > cell.B:
			rel = "offset>batch"
		}
		m := "row"
		if mode.Batch {
			m = "batch"
		}
		return fmt.Sprintf("%s / %s / %s / %s", cell.Kind, m, rel, what)
	}
	if strings.HasPrefix(cell.Kind, "delete") {
		q := "delete where " + c08Where(cell.Kind, cell.R) + lim
		st := refstore.New(pairs)
		o := drive.Run(q, st, mode)
		rec.Eval(1)
		if o.Status() != "ok" {
			if o.Status() == "panic" || o.Status() == "runaway" {
				c.Violation("crash", cluster("panic"), func() rt.D { return rt.D{"query": q, "observed": outcomeBrief(o)} })
			} else {
				rec.NotJudged("limited delete failed: " + firstWords(o.ErrText()))
			}
			return
		}
		del := map[string]bool{}
		for _, r := range want {
			del[r[0]] = true
		}
		var left []refstore.Pair
		for _, p := range pairs {
			if !del[drive.Norm([]byte(p.K))] {
				left = append(left, p)
			}
		}
		if !st.Equal(left) {
			c.Violation("deleted-keys-not-the-slice", cluster("wrong pairs deleted"), func() rt.D {
				return rt.D{"query": q, "batch_size": cell.B, "result_size": len(un.Rows), "offset": s, "count": n, "diff": diffPairs(left, st.Pairs())}
			})
		}
		return
	}
	q := base + lim
	o := drive.Run(q, refstore.New(pairs), mode)
	rec.Eval(1)
	if o.Status() != "ok" {
		if o.Status() == "panic" || o.Status() == "runaway" {
			c.Violation("crash", cluster("panic"), func() rt.D { return rt.D{"query": q, "observed": outcomeBrief(o)} })
		} else {
			rec.NotJudged("limited statement failed: " + firstWords(o.ErrText()))
		}
		return
	}
	ok := drive.RowsEqual(o.Rows, want)
	if !ok && (cell.Kind == "ordered") && len(o.Rows) == len(want) {
		// ties: the sort-key sequence must match and every row must be a row of
		// the unlimited result, each used at most once
		ok = true
		avail := map[string]int{}
		for _, r := range un.Rows {
			avail[drive.RowKey(r)]++
		}
		for i := range want {
			if o.Rows[i][1] != want[i][1] {
				ok = false
				break
			}
			key := drive.RowKey(o.Rows[i])
			if avail[key] == 0 {
				ok = false
				break
			}
			avail[key]--
		}
		// and the tie class cut by the slice end may only contain rows of that class
	}
	if !ok {
		c.Violation("not-the-requested-slice", cluster(sliceDiff(len(un.Rows), s, n, len(o.Rows))), func() rt.D {
			return rt.D{"query": q, "mode": mode.String(), "batch_size": cell.B, "result_size": len(un.Rows), "offset": s, "count": n,
				"expected": drive.Trunc(want, 10), "observed": drive.Trunc(o.Rows, 10), "batches": o.BatchSizes}
		})
	}
	if c.Case%37 == 0 && s == 2 && n == 3 {
		rec.Sample(rt.D{"query": q, "mode": mode.String(), "unlimited_rows": len(un.Rows), "returned": len(o.Rows)})
	}
}

func sliceDiff(total, s, n, got int) string {
	want := 0
	if s < total {
		want = total - s
		if want > n {
			want = n
		}
	}
	switch {
	case got > want:
		return "too many rows"
	case got < want:
		return "too few rows"
	}
	return "wrong rows"
}

var _ = sort.Strings
