#!/usr/bin/env python3
"""Re-verifies every kept seeded defect against /repo's current HEAD (after repairs have moved it):
the demonstration passes without the change, the patch applies (plain, else 3-way), the package
compiles, the existing suite passes with it, the demonstration fails with it. Prints one line per
defect that no longer verifies and updates `verified_on_repo_head` in the others.
usage: seeded_reverify.py [ids...]     env PAR (default 8)"""
import json, os, subprocess, sys, glob, shutil
from concurrent.futures import ThreadPoolExecutor
import threading, queue
V = os.path.dirname(os.path.dirname(os.path.abspath(__file__)))
ENV = dict(os.environ, GOFLAGS="-mod=mod", GOPROXY="off", GOSUMDB="off", GOTOOLCHAIN="local")
PAR = int(os.environ.get("PAR", "8"))
def run(cmd, cwd=None, timeout=900):
    p = subprocess.run(cmd, shell=True, cwd=cwd, env=ENV, capture_output=True, text=True, timeout=timeout)
    return p.returncode, p.stdout + p.stderr
head = run("git -C /repo rev-parse --short HEAD")[1].strip()
slots = queue.Queue()
for i in range(PAR):
    wt = "/tmp/seedrv.slot%d" % i
    run("git -C /repo worktree remove --force %s" % wt); shutil.rmtree(wt, ignore_errors=True)
    rc, out = run("git -C /repo worktree add --detach %s HEAD" % wt); assert rc == 0, out
    slots.put(wt)
def one(d):
    sid = os.path.basename(d); mp = os.path.join(d, "meta.json"); m = json.load(open(mp))
    kept = not m.get("excluded") and m.get("applies") and m.get("compiles") and m.get("existing_suite_passes_with_change") and m.get("demo_fails_with_change") and m.get("demo_passes_without_change")
    if not kept: return None
    race = "-race" if sid.startswith("C19") else ""
    wt = slots.get()
    try:
        run("git reset -q --hard && git clean -fdq", cwd=wt)
        shutil.copy(os.path.join(d, "demo_test.go.txt"), wt + "/seeded_demo_test.go")
        if os.path.exists(os.path.join(d, "demo_helper_test.go.txt")):
            shutil.copy(os.path.join(d, "demo_helper_test.go.txt"), wt + "/seeded_demo_helper_test.go")
        rc, out = run("go test %s -vet=off -count=1 -run TestSeededDemo ." % race, cwd=wt)
        if rc != 0: return sid, "demo fails WITHOUT the change: " + out[-300:].replace("\n", " | ")
        rc, _ = run("git apply %s" % os.path.join(d, "patch.diff"), cwd=wt)
        how = "plain"
        if rc != 0:
            rc, _ = run("git apply -3 %s && git reset -q" % os.path.join(d, "patch.diff"), cwd=wt); how = "3way"
            if rc != 0: return sid, "patch does not apply"
        rc, out = run("go build ./...", cwd=wt)
        if rc != 0: return sid, "does not compile"
        rc, out = run("go test %s -vet=off -count=1 -run TestSeededDemo ." % race, cwd=wt)
        if rc == 0: return sid, "demo PASSES with the change (%s apply): neutralised or misplaced" % how
        os.remove(wt + "/seeded_demo_test.go")
        if os.path.exists(wt + "/seeded_demo_helper_test.go"): os.remove(wt + "/seeded_demo_helper_test.go")
        rc, out = run("go test -vet=off -count=1 ./...", cwd=wt)
        if rc != 0: return sid, "existing suite fails with the change"
        m["verified_on_repo_head"] = head; json.dump(m, open(mp, "w"), indent=1)
        return None
    finally:
        slots.put(wt)
ids = sys.argv[1:]
dirs = [os.path.join(V, "seeded", i) for i in ids] if ids else sorted(glob.glob(os.path.join(V, "seeded/C*-[a-z]*")))
bad = []
with ThreadPoolExecutor(PAR) as ex:
    for r in ex.map(one, dirs):
        if r: print("%s: %s" % r); bad.append(r[0])
for i in range(PAR):
    wt = "/tmp/seedrv.slot%d" % i
    run("git -C /repo worktree remove --force %s" % wt); shutil.rmtree(wt, ignore_errors=True)
run("git -C /repo worktree prune")
print("re-verified on %s: %d defects, %d no longer verify: %s" % (head, len(dirs), len(bad), " ".join(bad)))
