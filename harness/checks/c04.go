package checks

import (
	"fmt"

	kvql "github.com/c4pt0r/kvql"

	"kvqlverif/drive"
	"kvqlverif/gen"
	"kvqlverif/refeval"
	"kvqlverif/refstore"
	"kvqlverif/rt"
)

// C04 — constant folding and rewriting preserve value and kind. Differential:
// Execute / ExecuteBatch of the parsed expression before and after
// ExpressionOptimizer.Optimize(); second witness: the full query vs refeval.

type c04 struct{ rt.Base }

func init() { rt.Register(&c04{}) }

func (c04) ID() string { return "C04" }

var c04Pairs = []refstore.Pair{{K: "ab", V: "-2"}, {K: "abc", V: "1.5"}, {K: "k", V: "0"}, {K: "k1", V: "3"}, {K: "q", V: "0.25"}, {K: "zz", V: "10"}, {K: "zzz", V: "7"}}

func c04NumLeaves() []*gen.Node {
	var out []*gen.Node
	for _, i := range []int64{0, 1, 2, 3, 7} {
		out = append(out, gen.Int(i))
	}
	for _, f := range []string{"0.5", "1.5", "2.0", "0.25"} {
		out = append(out, gen.Float(f))
	}
	out = append(out, gen.Call("int", gen.Value()), gen.Call("float", gen.Value()), gen.Call("strlen", gen.Key()))
	out = append(out, gen.Call("int", gen.Str("3")), gen.Call("float", gen.Str("1.5")), gen.Call("strlen", gen.Str("ab")))
	return out
}

var c04Leaves = c04NumLeaves()
var c04Ops = []string{"+", "-", "*", "/"}

func c04ZeroDiv(op string, r *gen.Node) bool {
	if op != "/" {
		return false
	}
	return (r.K == gen.KInt && r.I == 0) || (r.K == gen.KFloat && r.F == 0)
}

// depth-1 numeric trees, exhaustive
func c04D1() []*gen.Node {
	var out []*gen.Node
	for _, a := range c04Leaves {
		for _, b := range c04Leaves {
			for _, op := range c04Ops {
				if c04ZeroDiv(op, b) {
					continue
				}
				out = append(out, gen.Bin(op, a, b))
			}
		}
	}
	return out
}

var c04Depth1 = c04D1()

var c04CmpAll = func() []*gen.Node {
	var out []*gen.Node
	for _, a := range c04Leaves {
		for _, b := range c04Leaves {
			for _, op := range cmpNOps {
				out = append(out, gen.Bin(op, a, b))
			}
		}
	}
	return out
}()

const c04Block = 50

func c04OneSided() int { return len(c04Depth1) * len(c04Leaves) * len(c04Ops) * 2 }

func (c04) NumCases(tier string) int {
	ex := len(c04Depth1) + c04OneSided()
	if tier == "thorough" {
		return ex/c04Block + 1 + 400000/c04Block
	}
	return len(c04Depth1)/c04Block + 1 + 30000/c04Block + 40000/c04Block
}

func (c04) Exhaustive(tier string) bool { return tier == "thorough" }

func (c04) Rule() string {
	return fmt.Sprintf("exhaustive: all %d depth-1 numeric trees over 5 integer and 4 dyadic float constants, 3 row leaves and 3 constant calls, and (thorough: all %d, quick: 30000 sampled) depth-2 trees with one deep side; sampled: comparisons and Boolean combinations with constant sub-trees, re-association chains (x op c1 op c2 op c3.. for + and * incl. text concatenation), chains mixing + - * with unfolded constant sub-expressions as operands ((x + 2 * 3) * 4), constant function calls, text expressions. Each evaluated with Execute (pair by pair) and ExecuteBatch (the 7 pairs in chunks of 3, 3 and 1) before and after Optimize(); a sample also through BuildPlan against the reference evaluator. Non-trivial: the rewrite changed the expression's String(); distinct by expression text.", len(c04Depth1), c04OneSided())
}

func (c04) Assumptions() []string {
	return []string{"floats are dyadic so equality is exact", "pairs on which the un-rewritten expression fails (division by a zero row value) are skipped, as the property says"}
}

func (c04) Gates(tier string, m map[string]int64) []rt.Gate {
	gs := []rt.Gate{rt.GateMin("rewritten Boolean expressions used as a named select field", m, "fullquery_named_field", 100),
		rt.GateMin("expressions compared", m, "compared", 10000)}
	gs = append(gs, rt.Gate{Name: "rewrite fired in >=30% of the compared expressions", Observed: m["rewrite_fired"], Need: m["compared"] * 3 / 10, OK: m["rewrite_fired"]*10 >= m["compared"]*3})
	for _, cat := range []string{"constbin", "constcall", "boolconst", "chain", "textchain"} {
		gs = append(gs, rt.GateMin("rewrite fired for category "+cat, m, "fired:"+cat, 10))
	}
	gs = append(gs, rt.GateMin("full-query second witness runs", m, "fullquery", 500))
	return gs
}

// aggregateField: a Boolean constant next to an aggregate comparison in a select field. The
// rewrite may simplify, the field stays an aggregate: one row (no GROUP BY, pairs pass), holding
// the value the operands have.
func (k c04) aggregateField(c *rt.Ctx) {
	r := c.R
	forms := []struct {
		f    string
		want bool
	}{
		{"(1 = 1) | (count(1) > 0)", true}, {"(count(1) > 0) | (1 = 1)", true}, {"(1 = 2) & (count(1) > 0)", false}, {"(count(1) > 0) & (2 = 2)", true},
		{"(1 = 2) | (count(1) > 99)", false}, {"(count(1) > 99) & (1 = 1)", false}, {"(sum(int(value)) >= 0) | ('a' = 'a')", true}, {"('a' = 'b') & (max(key) = 'k2')", false},
		{"((1 = 1) | (count(1) > 0)) = (2 = 2)", true},
	}
	f := forms[r.Intn(len(forms))]
	q := "select " + f.f + " as b where " + []string{"true", "key ^= 'k'", "int(value) >= 0"}[r.Intn(3)]
	pairs := []refstore.Pair{{K: "k0", V: "1"}, {K: "k1", V: "2"}, {K: "k2", V: "3"}}
	c.Rec.Inc("boolean_constants_around_aggregates")
	for _, m := range []drive.Mode{{Batch: false, Size: 3, Cache: true}, {Batch: true, Size: 2, Cache: true}} {
		o := drive.Run(q, refstore.New(pairs), m)
		c.Rec.Eval(1)
		if o.Status() == "planerr" {
			c.Rec.NotJudged("aggregate field with a Boolean constant refused: " + firstWords(stripPos(o.ErrText())))
			return
		}
		want := fmt.Sprintf("[[B%v]]", f.want)
		if o.Status() != "ok" || fmt.Sprint(o.Rows) != want {
			c.Violation("rewrite-changes-an-aggregate-field", "fullquery / aggregate / "+rt.Shape(f.f), func() rt.D {
				return rt.D{"query": q, "mode": m.String(), "expected_rows": want, "outcome": outcomeBrief(o)}
			})
			return
		}
	}
}

func (k c04) Run(c *rt.Ctx) {
	idx := c.Case
	if idx%40 == 17 {
		k.aggregateField(c)
	}
	if idx%40 == 23 {
		// every comparison of two leaves (an integer and a float of equal value among them), exhaustively
		for i := (idx / 40) * c04Block; i < (idx/40+1)*c04Block && i < len(c04CmpAll); i++ {
			k.judge(c, c04CmpAll[i], "constbin", i%10 == 0)
			c.Rec.Inc("leaf_comparisons")
		}
	}
	if idx%40 == 11 {
		// re-association chains over a FLOAT-valued row leaf whose integer constants, combined among
		// themselves, leave int64: as written every step is float arithmetic and nothing overflows, so
		// a rewrite that multiplies or adds the constants as integers changes the value (found on the
		// unchanged tree through a sub-agent's remark in wave 15; repaired, section 6.1). The integer
		// leaf beside it wraps in both forms and must keep agreeing.
		F, I := func() *gen.Node { return gen.Call("float", gen.Value()) }, gen.Int
		mul := func(x *gen.Node, ks ...*gen.Node) *gen.Node {
			for _, k := range ks {
				x = gen.Bin("*", x, k)
			}
			return x
		}
		for _, t := range []*gen.Node{
			mul(F(), I(4294967296), I(4294967296)),
			mul(F(), I(3037000500), I(3037000500)),
			mul(F(), I(65536), I(65536), I(65536), I(65536)),
			mul(F(), gen.Bin("*", I(4294967296), I(2)), I(2147483648)),
			mul(F(), I(2147483648), gen.Bin("*", I(4294967296), I(2))),
			gen.Bin("+", gen.Bin("+", F(), I(9223372036854775807)), I(1)),
			gen.Bin("+", gen.Bin("+", F(), I(4611686018427387904)), I(4611686018427387904)),
			gen.Bin(">", mul(F(), I(4294967296), I(4294967296)), gen.Float("1.0")),
			mul(gen.Call("int", gen.Value()), I(4294967296), I(4294967296)),
			mul(gen.Call("strlen", gen.Key()), I(3037000500), I(3037000500)),
		} {
			k.judge(c, t, "chain", false)
			c.Rec.Inc("float_leaf_chains_whose_integer_constants_leave_int64")
		}
	}
	if idx%40 == 17 {
		// wave 15: text constants of 10-16 bytes whose concatenation passes 16 bytes (C04-aa: a fixed
		// 16-byte buffer on the row path, which is the path constant folding takes), and ordering
		// comparisons of integer constants that differ only beyond 2^53 (C04-ab: widened to float64)
		S, I := gen.Str, gen.Int
		for _, t := range []*gen.Node{
			gen.Bin("+", S("abcdefghij"), S("klmnopqrst")),
			gen.Bin("=", gen.Bin("+", S("abcdefghij"), S("klmnopqrst")), S("abcdefghijklmnopqrst")),
			gen.Bin("+", gen.Bin("+", gen.Key(), S("0123456789abcdef")), S("0123456789abcdef")),
			gen.Bin("+", gen.Bin("+", S("0123456789abcde"), S("xy")), gen.Value()),
			gen.Bin("=", gen.Bin("+", gen.Key(), S("0123456789abcdef")), gen.Bin("+", gen.Key(), S("0123456789abcde"))),
			gen.Call("upper", gen.Bin("+", S("abcdefghijklmnop"), S("q"))),
		} {
			k.judge(c, t, "textchain", true)
			c.Rec.Inc("text_constants_passing_16_bytes")
		}
		big := []int64{9007199254740992, 9007199254740993, 9007199254740994, -9007199254740993, 9223372036854775806, 9223372036854775807}
		for _, a := range big {
			for _, b := range big {
				for _, op := range []string{">", ">=", "<", "<="} { // every operator on every pair
					k.judge(c, gen.Bin(op, I(a), I(b)), "constbin", true)
					c.Rec.Inc("integer_constants_beyond_2^53_compared")
				}
			}
		}
	}
	nd1 := len(c04Depth1)/c04Block + 1
	if idx < nd1 {
		for i := idx * c04Block; i < (idx+1)*c04Block && i < len(c04Depth1); i++ {
			k.judge(c, c04Depth1[i], "constbin", i%10 == 0)
		}
		return
	}
	idx -= nd1
	nos := c04OneSided()
	pick := func(i int) *gen.Node {
		d1 := c04Depth1[i%len(c04Depth1)]
		i /= len(c04Depth1)
		lf := c04Leaves[i%len(c04Leaves)]
		i /= len(c04Leaves)
		op := c04Ops[i%4]
		i /= 4
		if i%2 == 0 {
			if c04ZeroDiv(op, lf) {
				return nil
			}
			return gen.Bin(op, d1, lf)
		}
		return gen.Bin(op, lf, d1)
	}
	if c.Thorough() {
		if idx < nos/c04Block+1 {
			for i := idx * c04Block; i < (idx+1)*c04Block && i < nos; i++ {
				if t := pick(i); t != nil {
					k.judge(c, t, "constbin", false)
				}
			}
			return
		}
	} else if idx < 30000/c04Block {
		for i := 0; i < c04Block; i++ {
			if t := pick(c.R.Intn(nos)); t != nil {
				k.judge(c, t, "constbin", i%10 == 0)
			}
		}
		return
	}
	for i := 0; i < c04Block; i++ {
		t, cat := c04Random(c.R)
		k.judge(c, t, cat, i%5 == 0)
	}
}

func c04Num(r *rt.Rand, d int) *gen.Node {
	if d == 0 || r.Chance(1, 3) {
		return c04Leaves[r.Intn(len(c04Leaves))]
	}
	op := c04Ops[r.Intn(4)]
	l, rr := c04Num(r, d-1), c04Num(r, d-1)
	if op == "/" {
		rr = []*gen.Node{gen.Int(1), gen.Int(2), gen.Float("0.5"), gen.Float("2.0"), gen.Int(7)}[r.Intn(5)]
	}
	return gen.Bin(op, l, rr)
}

var c04TextLeaves = []*gen.Node{gen.Str("a"), gen.Str("b"), gen.Str(""), gen.Key(), gen.Value(), gen.Call("upper", gen.Str("a")), gen.Call("str", gen.Int(2)), gen.Call("lower", gen.Str("AB")), gen.Str("_x"), gen.Str(":")}

func c04Text(r *rt.Rand, d int) *gen.Node {
	if d == 0 || r.Chance(1, 3) {
		return c04TextLeaves[r.Intn(len(c04TextLeaves))]
	}
	switch r.Intn(4) {
	case 0:
		return gen.Call("upper", c04Text(r, d-1))
	case 1:
		// str() of integer-valued expressions only: the text rendering of a
		// float (incl. the sign of a zero) is not documented (register B15)
		return gen.Call("str", gen.Bin(c04Ops[r.Intn(3)], gen.Call("strlen", gen.Key()), gen.Int(int64(r.Range(0, 7)))))
	}
	return gen.Bin("+", c04Text(r, d-1), c04Text(r, d-1))
}

func c04Cmp(r *rt.Rand, constant bool) *gen.Node {
	if r.Chance(1, 4) {
		a, b := c04Text(r, 1), c04Text(r, 1)
		if constant {
			a, b = gen.Str([]string{"a", "b", ""}[r.Intn(3)]), gen.Str([]string{"a", "b", ""}[r.Intn(3)])
		}
		if (a.K == gen.KKey && b.K == gen.KKey) || (a.K == gen.KValue && b.K == gen.KValue) {
			b = gen.Str("a")
		}
		return gen.Bin([]string{"=", "!=", ">", ">=", "<", "<="}[r.Intn(6)], a, b)
	}
	if constant {
		consts := c04Leaves[:9]
		return gen.Bin(cmpNOps[r.Intn(6)], consts[r.Intn(9)], consts[r.Intn(9)])
	}
	return gen.Bin(cmpNOps[r.Intn(6)], c04Num(r, 2), c04Num(r, 2))
}

var cmpNOps = []string{"=", "!=", ">", ">=", "<", "<="}

func c04Random(r *rt.Rand) (*gen.Node, string) {
	switch r.Intn(10) {
	case 9: // chains of divisions (and a product before them) by constants whose product leaves int64
		x := c04Leaves[9+r.Intn(3)] // row leaf
		ks := []*gen.Node{gen.Int(4294967296), gen.Int(3037000500), gen.Int(2), gen.Int(3), gen.Int(7), gen.Float("2.0"), gen.Float("0.5"), gen.Int(65536)}
		t := x
		if r.Chance(1, 3) {
			t = gen.Bin("*", t, ks[r.Intn(len(ks))])
		}
		for i, n := 0, r.Range(2, 3); i < n; i++ {
			t = gen.Bin("/", t, ks[r.Intn(len(ks))])
		}
		if r.Chance(1, 3) {
			t = gen.Bin(cmpNOps[r.Intn(6)], t, c04Leaves[r.Intn(9)])
		}
		return t, "divchain"
	case 8: // chains that mix operators, with constant sub-expressions still unfolded as operands
		ops := []string{"+", "*", "-", "/"}
		x := c04Leaves[9+r.Intn(3)] // row leaf
		konst := func() *gen.Node {
			if r.Bool() {
				return c04Leaves[r.Intn(9)]
			}
			return gen.Bin(ops[r.Intn(3)], c04Leaves[r.Intn(9)], c04Leaves[r.Intn(9)])
		}
		t := x
		n := r.Range(2, 4)
		for i := 0; i < n; i++ {
			if r.Chance(1, 5) {
				t = gen.Bin(ops[r.Intn(3)], konst(), t)
			} else {
				t = gen.Bin(ops[r.Intn(3)], t, konst())
			}
		}
		if r.Chance(1, 3) {
			t = gen.Bin(cmpNOps[r.Intn(6)], t, c04Leaves[r.Intn(9)])
		}
		return t, "mixedchain"
	case 0, 1: // re-association chains
		op := []string{"+", "*"}[r.Intn(2)]
		x := c04Leaves[9+r.Intn(3)] // row leaf
		n := r.Range(2, 5)
		t := x
		for i := 0; i < n; i++ {
			t = gen.Bin(op, t, c04Leaves[r.Intn(9)])
		}
		if r.Chance(1, 3) {
			t = gen.Bin(cmpNOps[r.Intn(6)], t, c04Leaves[r.Intn(9)])
		}
		return t, "chain"
	case 2: // text chains
		x := []*gen.Node{gen.Key(), gen.Value(), gen.Call("upper", gen.Key())}[r.Intn(3)]
		n := r.Range(2, 5)
		t := x
		lits := []string{"_a", "_b", "_c", ":", "x", "y", "z", ""}
		for i := 0; i < n; i++ {
			t = gen.Bin("+", t, gen.Str(lits[r.Intn(len(lits))]))
		}
		if r.Chance(1, 3) {
			t = gen.Bin("=", t, gen.Str("k1_a_b"))
		}
		return t, "textchain"
	case 3, 4: // Boolean with constant comparisons: x & true etc.
		var t *gen.Node
		a, b := c04Cmp(r, r.Bool()), c04Cmp(r, true)
		if r.Bool() {
			a, b = b, a
		}
		if r.Bool() {
			t = gen.And(a, b)
		} else {
			t = gen.Or(a, b)
		}
		if r.Chance(1, 2) {
			d := c04Cmp(r, r.Bool())
			var u *gen.Node
			if r.Bool() {
				u = gen.And(t, d)
			} else {
				u = gen.Or(d, t)
			}
			t = u
			if r.Chance(1, 3) {
				e := c04Cmp(r, true)
				if r.Bool() {
					t = gen.Or(t, e)
				} else {
					t = gen.And(e, t)
				}
			}
		}
		// & | and the keywords and / or, mixed
		t.Walk(func(n *gen.Node) {
			if n.K == gen.KBin && (n.Op == "and" || n.Op == "or") {
				n.Sym = r.Chance(2, 3)
			}
		})
		return t, "boolconst"
	case 5: // constant calls
		calls := []*gen.Node{gen.Call("upper", gen.Str("a")), gen.Call("int", gen.Str("3")), gen.Call("str", gen.Int(2)), gen.Call("float", gen.Str("1.5")), gen.Call("is_int", gen.Str("x")), gen.Call("strlen", gen.Str("ab")),
			gen.Call("lower", gen.Bin("+", gen.Str("A"), gen.Str("b"))), gen.Call("is_float", gen.Str("1.5")), gen.Call("int", gen.Bin("+", gen.Int(1), gen.Int(2))), gen.Call("float", gen.Int(3)), gen.Call("join", gen.Str(","), gen.Int(1), gen.Str("a")), gen.Call("strlen", gen.Call("upper", gen.Str("abc"))),
			// type tests over constants of every kind (an integer is not a float, whatever its text looks like)
			gen.Call("is_float", gen.Bin("+", gen.Int(1), gen.Int(2))), gen.Call("is_float", gen.Call("strlen", gen.Str("ab"))), gen.Call("is_int", gen.Bin("*", gen.Int(2), gen.Int(3))), gen.Call("is_int", gen.Float("2.5")),
			gen.Call("is_float", gen.Bin("+", gen.Float("0.5"), gen.Float("0.5"))), gen.Call("is_int", gen.Str("12")), gen.Call("is_float", gen.Str("7")), gen.Call("is_int", gen.Call("float", gen.Int(3))),
			// a constant call is folded through the function's row version and evaluated unfolded through its
			// vector twin in batch mode: arguments at and beyond the ends of the text
			gen.Call("substr", gen.Str("hello"), gen.Int(2), gen.Int(4)), gen.Call("substr", gen.Str("ab"), gen.Int(1), gen.Int(2)), gen.Call("substr", gen.Str("hello"), gen.Int(1), gen.Int(5)),
			gen.Call("substr", gen.Str("hello"), gen.Int(0), gen.Int(3)), gen.Call("substr", gen.Str("hello"), gen.Int(4), gen.Int(9)), gen.Call("substr", gen.Str("hello"), gen.Int(5), gen.Int(1)),
			gen.Call("str", gen.Str("ab")), gen.Call("str", gen.Bin("+", gen.Str("a"), gen.Str("b"))), gen.Call("str", gen.Call("lower", gen.Str("B"))), gen.Call("strlen", gen.Call("str", gen.Str("xyz"))), gen.Call("upper", gen.Call("str", gen.Str("k"))),
			gen.Call("len", gen.Call("split", gen.Str("a,b,,c"), gen.Str(","))), gen.Call("strlen", gen.Int(12345)), gen.Call("strlen", gen.Bin("*", gen.Int(25), gen.Int(4))), gen.Call("str", gen.Call("strlen", gen.Str("h\xc3\xa9llo"))),
			// case mapping of letters of several bytes
			gen.Call("lower", gen.Str("\u00c0B-\u00c9x")), gen.Call("upper", gen.Str("\u00e0b-\u00e9x")), gen.Call("strlen", gen.Call("lower", gen.Str("\u00c0\u0416"))), gen.Call("lower", gen.Bin("+", gen.Str("\u00c9"), gen.Str("A")))}
		t := calls[r.Intn(len(calls))]
		switch t.T {
		case gen.TN:
			t = gen.Bin(c04Ops[r.Intn(3)], t, c04Num(r, 1))
		case gen.TS:
			t = gen.Bin("+", t, c04Text(r, 1))
		case gen.TB:
			t = gen.And(t, c04Cmp(r, false))
		}
		return t, "constcall"
	case 6:
		return c04Text(r, 3), "textchain"
	}
	return c04Cmp(r, false), "constbin"
}

func c04Parse(text string, isBool bool) (kvql.Expression, string) {
	var q string
	if isBool {
		q = "select * where " + text
	} else {
		q = "select " + text + " where true"
	}
	var e kvql.Expression
	var errs string
	func() {
		defer func() {
			if r := recover(); r != nil {
				errs = fmt.Sprint("panic: ", r)
			}
		}()
		stmt, err := kvql.NewParser(q).Parse()
		if err != nil {
			errs = err.Error()
			return
		}
		sel := stmt.(*kvql.SelectStmt)
		if isBool {
			e = sel.Where.Expr
		} else {
			e = sel.Fields[0]
		}
	}()
	return e, errs
}

func c04Exec(e kvql.Expression, p refstore.Pair) (val string, err string) {
	defer func() {
		if r := recover(); r != nil {
			err = fmt.Sprint("panic: ", r)
		}
	}()
	v, er := e.Execute(kvql.NewKVPStr(p.K, p.V), kvql.NewExecuteCtx())
	if er != nil {
		return "", er.Error()
	}
	return drive.Norm(v), ""
}

func c04ExecBatch(e kvql.Expression, ps []refstore.Pair) (vals []string, err string) {
	defer func() {
		if r := recover(); r != nil {
			err = fmt.Sprint("panic: ", r)
		}
	}()
	// the pairs reach the expression in several chunks, two of them of equal length, the way a
	// scan feeds a filter: state kept inside the expression between chunks (a literal's vector,
	// a compiled pattern) shows as a difference from the pair-by-pair evaluation
	var out []string
	for lo := 0; lo < len(ps); lo += 3 {
		hi := lo + 3
		if hi > len(ps) {
			hi = len(ps)
		}
		chunk := make([]kvql.KVPair, hi-lo)
		for i, p := range ps[lo:hi] {
			chunk[i] = kvql.NewKVPStr(p.K, p.V)
		}
		vs, er := e.ExecuteBatch(chunk, kvql.NewExecuteCtx())
		if er != nil {
			return nil, er.Error()
		}
		if len(vs) != len(chunk) {
			return nil, fmt.Sprintf("ExecuteBatch returned %d values for %d pairs", len(vs), len(chunk))
		}
		for _, v := range vs {
			out = append(out, drive.Norm(v))
		}
	}
	return out, ""
}

func (k c04) judge(c *rt.Ctx, tree *gen.Node, cat string, fullQuery bool) {
	rec := c.Rec
	text := gen.Print(tree)
	isBool := tree.T == gen.TB
	pristine, perr := c04Parse(text, isBool)
	if perr != "" {
		rec.NotJudged("expression rejected by the parser/checker: " + firstWords(perr))
		return
	}
	second, _ := c04Parse(text, isBool)
	before := second.String()
	var opt kvql.Expression
	var oerr string
	func() {
		defer func() {
			if r := recover(); r != nil {
				oerr = fmt.Sprint(r)
			}
		}()
		eo := kvql.ExpressionOptimizer{Root: second}
		opt = eo.Optimize()
	}()
	rec.Eval(1)
	if oerr != "" {
		c.Violation("optimizer-panics", cat+" / "+gen.Shape(tree), func() rt.D { return rt.D{"expression": text, "panic": oerr} })
		return
	}
	after := opt.String()
	rec.Inc("compared")
	fired := before != after
	if fired {
		rec.Inc("rewrite_fired")
		rec.Inc("fired:" + cat)
		rec.DistinctS(text)
	}
	c.Logf("expression: %s\n  parsed:    %s\n  optimised: %s", text, before, after)
	var okPairs []refstore.Pair
	var okVals []string
	for _, p := range c04Pairs {
		v1, e1 := c04Exec(pristine, p)
		if e1 != "" {
			continue // the original does not evaluate on this pair
		}
		okPairs = append(okPairs, p)
		okVals = append(okVals, v1)
		v2, e2 := c04Exec(opt, p)
		c.Logf("  pair %v: original %s  rewritten %s %s", p, v1, v2, e2)
		if e2 != "" || v1 != v2 {
			what := "different value"
			if e2 != "" {
				what = "rewritten expression fails"
			} else if len(v1) > 0 && len(v2) > 0 && v1[0] != v2[0] {
				what = "different kind " + v1[:1] + "->" + v2[:1]
			}
			c.Violation("rewrite-changes-row-evaluation", cat+" / "+what+" / "+c04Cluster(tree), func() rt.D {
				return rt.D{"expression": text, "parsed": before, "optimised": after, "pair": [2]string{p.K, p.V}, "original": v1, "rewritten": v2, "rewritten_error": e2}
			})
			return
		}
	}
	if len(okPairs) > 0 {
		bv, be := c04ExecBatch(opt, okPairs)
		// the un-rewritten vector evaluation is the reference for the vector path
		pv, pe := c04ExecBatch(pristine, okPairs)
		if pe == "" {
			bad := be != ""
			if !bad {
				for i := range pv {
					if i >= len(bv) || pv[i] != bv[i] {
						bad = true
					}
				}
			}
			if bad {
				c.Violation("rewrite-changes-batch-evaluation", cat+" / "+c04Cluster(tree), func() rt.D {
					return rt.D{"expression": text, "parsed": before, "optimised": after, "original_batch": pv, "rewritten_batch": bv, "rewritten_error": be}
				})
				return
			}
		}
	}
	if fullQuery {
		k.fullQuery(c, tree, text, cat)
	}
	if c.Case%100 == 0 && fired && c.R.Chance(1, 20) {
		rec.Sample(rt.D{"expression": text, "parsed": before, "optimised": after})
	}
}

func c04Cluster(tree *gen.Node) string {
	s := gen.Shape(tree)
	if len(s) > 70 {
		s = s[:70]
	}
	return s
}

// fullQuery: second witness — the statement through BuildPlan vs the reference
// evaluator on the un-rewritten tree.
func (k c04) fullQuery(c *rt.Ctx, tree *gen.Node, text, cat string) {
	rec := c.Rec
	isBool := tree.T == gen.TB
	var q string
	named := isBool && c.R.Chance(1, 2)
	dup := false
	if named {
		// the expression as a named select field used by the filter: the rewrite must leave
		// what the name refers to intact (a negation over a comparison is the rewriter's food)
		if c.R.Bool() {
			tree = gen.Not(tree)
			text = "!(" + text + ")"
		}
		q = "select key, " + text + " as f1 where f1 = true"
		if c.R.Bool() {
			// a later field under the same name, foldable to a constant: the name keeps meaning
			// the first field (the later column is shown but not compared here)
			dup = true
			q = "select key, " + text + " as f1, " + []string{"(1 = 1)", "(2 > 3)", "(key = 'zz' | 1 = 1)", "('a' = 'b' & key = 'k')"}[c.R.Intn(4)] + " as f1 where f1 = true"
		}
		rec.Inc("fullquery_named_field")
	} else if isBool {
		q = "select * where " + text
	} else {
		q = "select key, " + text + " where true"
	}
	var want [][]string
	for _, p := range c04Pairs {
		env := &refeval.Env{Key: p.K, Value: p.V, FloatEq: true}
		v, ok := env.Eval(tree)
		if !ok {
			rec.NotJudged("full-query witness: not evaluable by the reference (" + firstWords(env.Why) + ")")
			return
		}
		if named {
			if v.B {
				want = append(want, []string{drive.Norm([]byte(p.K)), v.Norm()})
			}
		} else if isBool {
			if v.B {
				want = append(want, []string{drive.Norm([]byte(p.K)), drive.Norm([]byte(p.V))})
			}
		} else {
			want = append(want, []string{drive.Norm([]byte(p.K)), v.Norm()})
		}
	}
	rec.Inc("fullquery")
	for _, m := range []drive.Mode{{Batch: false, Size: 3, Cache: true}, {Batch: true, Size: 3, Cache: true}} {
		o := drive.Run(q, refstore.New(c04Pairs), m)
		rec.Eval(1)
		if o.Status() != "ok" {
			if o.Status() == "panic" {
				c.Violation("crash", cat+" / "+o.Frame, func() rt.D { return rt.D{"query": q, "outcome": outcomeBrief(o)} })
				return
			}
			c.Violation("full-query-fails", cat+" / "+c04Cluster(tree), func() rt.D { return rt.D{"query": q, "outcome": outcomeBrief(o)} })
			return
		}
		got := o.Rows
		if dup {
			got = make([][]string, len(o.Rows))
			for i, r := range o.Rows {
				if len(r) >= 2 {
					got[i] = r[:2]
				} else {
					got[i] = r
				}
			}
		}
		if !drive.RowsEqual(got, want) {
			c.Violation("full-query-differs-from-reference", cat+" / "+c04Cluster(tree), func() rt.D {
				return rt.D{"query": q, "mode": m.String(), "expected": drive.Trunc(want, 8), "observed": drive.Trunc(o.Rows, 8), "explain": o.Explain}
			})
			return
		}
	}
}
