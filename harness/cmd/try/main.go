package main

import (
	"fmt"
	"os"

	"kvqlverif/drive"
	"kvqlverif/refstore"
)

func main() {
	ps := []refstore.Pair{{K: "k1", V: "7"}, {K: "k2", V: "10"}}
	for _, q := range os.Args[1:] {
		st := refstore.New(ps)
		o := drive.Run(q, st, drive.Mode{Size: 3, Cache: true})
		fmt.Printf("%s\n  status=%s rows=%v err=%v calls=%d\n", q, o.Status(), o.Rows, o.Err(), len(st.Log()))
	}
}
