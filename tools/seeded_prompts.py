#!/usr/bin/env python3
"""Writes one prompt per property for a wave of fresh sub-agents and creates their scratch worktrees.
usage: seeded_prompts.py /tmp/wtN
Each prompt holds ONLY the property text (title, statement, quantifier), the worktree path and one-line
descriptions of the changes earlier waves produced for that property (so that the new ones differ);
nothing about /verif's checks. The agent is then started with:
  "Read the file /tmp/wtN/prompt_Cxx.txt and follow its instructions exactly. ..." """
import json, subprocess, glob, re, collections, sys, os
V = os.path.dirname(os.path.dirname(os.path.abspath(__file__)))
W = sys.argv[1]
os.makedirs(W, exist_ok=True)
t = open(os.path.join(V, "tools/seeded_prompt_template.txt")).read()
needs = json.load(open(os.path.join(V, "tools/seeded_needs.json")))
for l in open(os.path.join(V, "properties.jsonl")):
    p = json.loads(l); pid = p["id"]; i = int(pid[1:])
    wt = "%s/c%02d" % (W, i)
    subprocess.run(["git", "-C", "/repo", "worktree", "add", "--detach", wt, "HEAD"], capture_output=True)
    touched = collections.Counter()
    for pf in glob.glob(os.path.join(V, "seeded/%s-*/patch.diff" % pid)):
        cur = None
        for ln in open(pf, errors="replace"):
            if ln.startswith("+++ b/"): cur = ln[6:].strip()
            m = re.match(r"@@ .* @@ func (\([^)]*\) )?(\w+)", ln)
            if m and cur: touched[cur + ":" + m.group(2)] += 1
    tl = ", ".join(sorted(touched))
    steer = ("The changes listed above already touched these functions (file:function): " + tl + ". Yours must be in a function none of them touched, OR reach the property through a feature combination none of them used. Think about what a reviewer would wave through: a cleanup that unifies two almost-identical code paths, an early return added for an 'impossible' case, a default branch that now swallows a type, a loop bound changed from < to <=, a cache or buffer introduced to save allocations, an error wrapped or replaced, a sort made unstable, a comparison made case-insensitive, a field initialised lazily, a fast path for a common shape, a helper reused where its contract differs slightly. Every statement is executed with a fresh ExecuteCtx on an in-memory storage that returns its own byte slices (the library must not write into them); storage faults are single failing calls. The change must break THIS property, as stated and within what it is quantified over, for such ordinary use, and must need something specific (data shape, sizes, order, position) to show.\n\nImportant requirements for each mutant:")
    tt = t.replace("Important requirements for each mutant:", steer)
    prop = "Title: %s\n\nStatement: %s\n\nQuantified over: %s" % (p["title"], p["statement"], p["quantifier"]["text"])
    have = [needs[k]["change"] for k in sorted(needs) if k.startswith(pid)]
    s = tt.replace("__WT__", wt).replace("__PROP__", prop).replace("__HAVE__", "\n".join(" - " + h for h in have))
    s += "\nFinally, under a heading 'Remarks on the unmodified checkout', list any input you came across for which the UNMODIFIED checkout already seems to violate the property (exact statement, store contents, mode); do not try to fix it. Write 'none' if you saw nothing.\n"
    if pid == "C19":
        s += "\nNote for this property: a demonstration may need the race detector; in that case say so and verify it with `go test -race -vet=off -count=1 -run TestSeededDemo ./...` (the race detector works in this sandbox); a demo that shows wrong results under concurrency without -race is equally fine.\n"
    open("%s/prompt_%s.txt" % (W, pid), "w").write(s)
print("ok", W)
