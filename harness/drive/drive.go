// Package drive performs one execution of kvql — (statement, store, mode, batch
// size, cache switch) -> normalised outcome — inside recover(), and normalises
// column values by content.
package drive

import (
	"encoding/json"
	"errors"
	"fmt"
	"math"
	"runtime"
	"sort"
	"strconv"
	"strings"

	kvql "github.com/c4pt0r/kvql"

	"kvqlverif/refstore"
)

// ---------------------------------------------------------------- normalisation

// Norm renders a column value canonically: kind tag + content. Two values are
// "the same kind and value" iff their Norm strings are equal.
//
//	T"..."  text ([]byte or string)     I123  integer (any Go integer kind)
//	F1.5    float                       Btrue bool      N nil
//	L[..]   list (any slice kind)       M{..} JSON object (sorted keys)
func Norm(v any) string {
	var b strings.Builder
	norm(&b, v)
	return b.String()
}

func norm(b *strings.Builder, v any) {
	switch x := v.(type) {
	case nil:
		b.WriteString("N")
	case []byte:
		b.WriteString("T" + strconv.Quote(string(x)))
	case string:
		b.WriteString("T" + strconv.Quote(x))
	case bool:
		if x {
			b.WriteString("Btrue")
		} else {
			b.WriteString("Bfalse")
		}
	case int:
		b.WriteString("I" + strconv.FormatInt(int64(x), 10))
	case int8:
		b.WriteString("I" + strconv.FormatInt(int64(x), 10))
	case int16:
		b.WriteString("I" + strconv.FormatInt(int64(x), 10))
	case int32:
		b.WriteString("I" + strconv.FormatInt(int64(x), 10))
	case int64:
		b.WriteString("I" + strconv.FormatInt(x, 10))
	case uint:
		b.WriteString("I" + strconv.FormatUint(uint64(x), 10))
	case uint8:
		b.WriteString("I" + strconv.FormatUint(uint64(x), 10))
	case uint16:
		b.WriteString("I" + strconv.FormatUint(uint64(x), 10))
	case uint32:
		b.WriteString("I" + strconv.FormatUint(uint64(x), 10))
	case uint64:
		b.WriteString("I" + strconv.FormatUint(x, 10))
	case float32:
		b.WriteString("F" + fmtFloat(float64(x)))
	case float64:
		b.WriteString("F" + fmtFloat(x))
	case json.Number:
		b.WriteString("F" + x.String())
	case []string:
		b.WriteString("L[")
		for i, e := range x {
			if i > 0 {
				b.WriteByte(',')
			}
			norm(b, e)
		}
		b.WriteString("]")
	case [][]byte:
		b.WriteString("L[")
		for i, e := range x {
			if i > 0 {
				b.WriteByte(',')
			}
			norm(b, e)
		}
		b.WriteString("]")
	case []int64:
		b.WriteString("L[")
		for i, e := range x {
			if i > 0 {
				b.WriteByte(',')
			}
			norm(b, e)
		}
		b.WriteString("]")
	case []float64:
		b.WriteString("L[")
		for i, e := range x {
			if i > 0 {
				b.WriteByte(',')
			}
			norm(b, e)
		}
		b.WriteString("]")
	case []any:
		b.WriteString("L[")
		for i, e := range x {
			if i > 0 {
				b.WriteByte(',')
			}
			norm(b, e)
		}
		b.WriteString("]")
	case kvql.JSON:
		normMap(b, map[string]any(x))
	case map[string]any:
		normMap(b, x)
	case []kvql.Expression:
		b.WriteString("X[")
		for i, e := range x {
			if i > 0 {
				b.WriteByte(',')
			}
			b.WriteString(e.String())
		}
		b.WriteString("]")
	default:
		fmt.Fprintf(b, "?%T:%v", v, v)
	}
}

func normMap(b *strings.Builder, m map[string]any) {
	keys := make([]string, 0, len(m))
	for k := range m {
		keys = append(keys, k)
	}
	sort.Strings(keys)
	b.WriteString("M{")
	for i, k := range keys {
		if i > 0 {
			b.WriteByte(',')
		}
		b.WriteString(strconv.Quote(k))
		b.WriteByte(':')
		norm(b, m[k])
	}
	b.WriteString("}")
}

func fmtFloat(f float64) string {
	if math.IsNaN(f) {
		return "NaN"
	}
	if f == 0 {
		return "0" // -0 and +0 are the same value
	}
	return strconv.FormatFloat(f, 'g', -1, 64)
}

func NormRow(row []kvql.Column) []string {
	out := make([]string, len(row))
	for i, c := range row {
		out[i] = Norm(c)
	}
	return out
}

// ---------------------------------------------------------------- one execution

type Mode struct {
	Batch bool `json:"batch"`
	Size  int  `json:"size"`  // PlanBatchSize for this execution
	Cache bool `json:"cache"` // ctx.EnableCache
	// ExtraPolls: how many more times to poll the plan after it signalled the
	// end (C12 exactly-once).
	ExtraPolls int `json:"extra_polls,omitempty"`
}

func (m Mode) String() string {
	s := "row"
	if m.Batch {
		s = "batch"
	}
	c := "cache"
	if !m.Cache {
		c = "nocache"
	}
	return fmt.Sprintf("%s/%d/%s", s, m.Size, c)
}

type Outcome struct {
	Query      string
	PlanErr    error
	ExecErr    error
	Panic      string // non-empty if a panic was recovered
	PanicPhase string // plan | exec | render | explain
	Frame      string // top kvql frame of the panic
	Rows       [][]string
	RawRows    [][]kvql.Column
	BatchSizes []int // sizes of the batches returned (batch mode)
	FieldNames []string
	FieldTypes []kvql.Type
	Explain    []string
	Hit        int
	Runaway    bool // row cap exceeded
	Plan       kvql.FinalPlan
	ExtraRows  int // rows returned by extra polls after the end
	ExtraErr   error
	Polls      int
}

func (o *Outcome) Err() error {
	if o.PlanErr != nil {
		return o.PlanErr
	}
	return o.ExecErr
}

// Status summarises how the execution ended.
func (o *Outcome) Status() string {
	switch {
	case o.Panic != "":
		return "panic"
	case o.Runaway:
		return "runaway"
	case o.PlanErr != nil:
		return "planerr"
	case o.ExecErr != nil:
		return "execerr"
	}
	return "ok"
}

func (o *Outcome) ErrText() string {
	if e := o.Err(); e != nil {
		return e.Error()
	}
	return ""
}

const MaxRows = 20000

func topFrame() string {
	pc := make([]uintptr, 64)
	n := runtime.Callers(3, pc)
	frames := runtime.CallersFrames(pc[:n])
	for {
		f, more := frames.Next()
		if strings.Contains(f.Function, "c4pt0r/kvql.") {
			fn := f.Function[strings.LastIndex(f.Function, "/")+1:]
			return fn
		}
		if !more {
			break
		}
	}
	return "?"
}

// Run builds the plan for q over st and drains it in the given mode.
func Run(q string, st kvql.Storage, m Mode) (out *Outcome) {
	out = &Outcome{Query: q}
	phase := "plan"
	defer func() {
		if r := recover(); r != nil {
			if e, ok := r.(error); ok && e == refstore.ErrRunaway {
				// the store ended a run that went on polling after a permanent fault
				out.Runaway = true
				out.Frame = "storage polled without end after a failed call (" + topFrame() + ")"
				return
			}
			out.Panic = fmt.Sprint(r)
			out.PanicPhase = phase
			out.Frame = topFrame()
		}
	}()
	if m.Size > 0 {
		kvql.PlanBatchSize = m.Size
	}
	plan, err := kvql.NewOptimizer(q).BuildPlan(st)
	if err != nil {
		out.PlanErr = err
		return out
	}
	out.Plan = plan
	phase = "explain"
	out.FieldNames = plan.FieldNameList()
	out.FieldTypes = plan.FieldTypeList()
	out.Explain = plan.Explain()
	phase = "exec"
	ctx := kvql.NewExecuteCtx()
	ctx.EnableCache = m.Cache
	drain(out, plan, ctx, m)
	out.Hit = ctx.Hit
	return out
}

func drain(out *Outcome, plan kvql.FinalPlan, ctx *kvql.ExecuteCtx, m Mode) {
	if m.Batch {
		for {
			out.Polls++
			rows, err := plan.Batch(ctx)
			if err != nil {
				out.ExecErr = err
				return
			}
			if len(rows) == 0 {
				break
			}
			out.BatchSizes = append(out.BatchSizes, len(rows))
			for _, r := range rows {
				out.RawRows = append(out.RawRows, r)
				out.Rows = append(out.Rows, NormRow(r))
			}
			if len(out.Rows) > MaxRows {
				out.Runaway = true
				return
			}
		}
	} else {
		for {
			out.Polls++
			row, err := plan.Next(ctx)
			if err != nil {
				out.ExecErr = err
				return
			}
			if row == nil {
				break
			}
			out.RawRows = append(out.RawRows, row)
			out.Rows = append(out.Rows, NormRow(row))
			if len(out.Rows) > MaxRows {
				out.Runaway = true
				return
			}
		}
	}
	for i := 0; i < m.ExtraPolls; i++ {
		// alternate the polling API in a fixed pattern
		if (i+boolInt(m.Batch))%2 == 0 {
			row, err := plan.Next(ctx)
			if err != nil {
				out.ExtraErr = err
				return
			}
			if row != nil {
				out.ExtraRows++
			}
		} else {
			rows, err := plan.Batch(ctx)
			if err != nil {
				out.ExtraErr = err
				return
			}
			out.ExtraRows += len(rows)
		}
	}
}

func boolInt(b bool) int {
	if b {
		return 1
	}
	return 0
}

// Render binds the query to a returned error and renders it with several
// paddings, inside recover(). It returns the rendered texts or a panic text.
func Render(err error, q string, pads []int) (texts []string, panicText, frame string) {
	defer func() {
		if r := recover(); r != nil {
			panicText = fmt.Sprint(r)
			frame = topFrame()
		}
	}()
	if err == nil {
		return nil, "", ""
	}
	if qb, ok := err.(kvql.QueryBinder); ok {
		qb.BindQuery(q)
		for _, p := range pads {
			qb.SetPadding(p)
			texts = append(texts, err.Error())
		}
		return texts, "", ""
	}
	return []string{err.Error()}, "", ""
}

// ErrPos extracts the position of a positional error.
func ErrPos(err error) (pos int, kind string, ok bool) {
	var se *kvql.SyntaxError
	if errors.As(err, &se) {
		return se.Pos, "syntax", true
	}
	var ee *kvql.ExecuteError
	if errors.As(err, &ee) {
		return ee.Pos, "execute", true
	}
	return 0, "", false
}

// RowsEqual compares two normalised row lists.
func RowsEqual(a, b [][]string) bool {
	if len(a) != len(b) {
		return false
	}
	for i := range a {
		if !RowEq(a[i], b[i]) {
			return false
		}
	}
	return true
}

func RowEq(a, b []string) bool {
	if len(a) != len(b) {
		return false
	}
	for i := range a {
		if a[i] != b[i] {
			return false
		}
	}
	return true
}

func RowKey(r []string) string { return strings.Join(r, "\x1f") }

// Trunc shortens row lists for reports.
func Trunc(rows [][]string, n int) any {
	if len(rows) <= n {
		return rows
	}
	return map[string]any{"first": rows[:n], "total": len(rows)}
}

// ScanNode walks a built plan down to its scan node.
func ScanNode(p kvql.FinalPlan) kvql.Plan {
	for {
		switch x := p.(type) {
		case *kvql.ProjectionPlan:
			return unwrapPlan(x.ChildPlan)
		case *kvql.AggregatePlan:
			return unwrapPlan(x.ChildPlan)
		case *kvql.FinalOrderPlan:
			p = x.ChildPlan
		case *kvql.FinalLimitPlan:
			p = x.ChildPlan
		case *kvql.DeletePlan:
			return unwrapPlan(x.ChildPlan)
		default:
			return nil
		}
	}
}

func unwrapPlan(p kvql.Plan) kvql.Plan {
	for {
		if l, ok := p.(*kvql.LimitPlan); ok {
			p = l.ChildPlan
			continue
		}
		return p
	}
}

// PairsOf converts refstore pairs for reports.
func PairsOf(ps []refstore.Pair) [][2]string {
	out := make([][2]string, len(ps))
	for i, p := range ps {
		out[i] = [2]string{p.K, p.V}
	}
	return out
}
