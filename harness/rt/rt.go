// Package rt is the small runtime shared by all property checks: deterministic
// random streams, the per-worker recorder (counters, distinct-case set, samples,
// findings), and the check registry.
package rt

import (
	"encoding/json"
	"fmt"
	"hash/fnv"
	"sort"
	"strings"
)

// ---------------------------------------------------------------- PRNG

// Rand is a splitmix64 stream. Every case gets its own stream keyed by
// (seed, property id, case index) so that a case is the same whatever the
// sharding and whatever ran before it.
type Rand struct{ s uint64 }

func mix(z uint64) uint64 {
	z = (z ^ (z >> 30)) * 0xbf58476d1ce4e5b9
	z = (z ^ (z >> 27)) * 0x94d049bb133111eb
	return z ^ (z >> 31)
}

func HashStr(s string) uint64 {
	h := fnv.New64a()
	h.Write([]byte(s))
	return h.Sum64()
}

func NewRand(seed uint64, prop string, idx uint64) *Rand {
	s := mix(seed+0x9e3779b97f4a7c15) ^ mix(HashStr(prop)+0x1234567) ^ mix(idx*0x9e3779b97f4a7c15+77)
	return &Rand{s: s}
}

func (r *Rand) U64() uint64 {
	r.s += 0x9e3779b97f4a7c15
	return mix(r.s)
}

func (r *Rand) Intn(n int) int {
	if n <= 1 {
		return 0
	}
	return int(r.U64() % uint64(n))
}

// Range returns an integer in [lo, hi].
func (r *Rand) Range(lo, hi int) int { return lo + r.Intn(hi-lo+1) }

func (r *Rand) Bool() bool { return r.U64()&1 == 1 }

// Chance returns true with probability num/den.
func (r *Rand) Chance(num, den int) bool { return r.Intn(den) < num }

func (r *Rand) PickS(xs []string) string { return xs[r.Intn(len(xs))] }
func (r *Rand) PickI(xs []int) int       { return xs[r.Intn(len(xs))] }

// Fork derives an independent stream.
func (r *Rand) Fork() *Rand { return &Rand{s: mix(r.U64() ^ 0xabcdef)} }

// ---------------------------------------------------------------- findings / recorder

type Finding struct {
	Prop    string         `json:"property"`
	Oracle  string         `json:"oracle"`
	Cluster string         `json:"cluster"`
	Case    int            `json:"case_index"`
	Tier    string         `json:"tier"`
	Seed    uint64         `json:"seed"`
	Detail  map[string]any `json:"detail"`
}

const maxFindingsPerCluster = 2
const maxSamples = 6

// Rec accumulates what one worker observed.
type Rec struct {
	Counters     map[string]int64  `json:"counters"`
	Hashes       []uint64          `json:"hashes"`
	Samples      []any             `json:"samples"`
	Findings     []Finding         `json:"findings"`
	ClusterCount map[string]int64  `json:"cluster_count"`
	Notes        map[string]string `json:"notes"`
	Maxes        map[string]int64  `json:"maxes"`
	DoneUpto     int               `json:"done_upto"` // last case index completed and covered by this dump
	Done         bool              `json:"done"`
	hset         map[uint64]struct{}
	sampleSeen   int
}

func NewRec() *Rec {
	return &Rec{Counters: map[string]int64{}, ClusterCount: map[string]int64{}, Notes: map[string]string{}, Maxes: map[string]int64{}, DoneUpto: -1, hset: map[uint64]struct{}{}}
}

func (r *Rec) Count(name string, n int64) { r.Counters[name] += n }
func (r *Rec) Inc(name string)            { r.Counters[name]++ }
func (r *Rec) Max(name string, v int64) {
	if v > r.Maxes[name] {
		r.Maxes[name] = v
	}
}

// Merge folds another worker's record into r.
func (r *Rec) Merge(o *Rec) {
	for k, v := range o.Counters {
		r.Counters[k] += v
	}
	for k, v := range o.Maxes {
		if v > r.Maxes[k] {
			r.Maxes[k] = v
		}
	}
	for _, h := range o.Hashes {
		r.hset[h] = struct{}{}
	}
	for h := range o.hset {
		r.hset[h] = struct{}{}
	}
	for _, s := range o.Samples {
		if len(r.Samples) < 2*maxSamples {
			r.Samples = append(r.Samples, s)
		}
	}
	r.Findings = append(r.Findings, o.Findings...)
	for k, v := range o.ClusterCount {
		r.ClusterCount[k] += v
	}
	for k, v := range o.Notes {
		r.Notes[k] = v
	}
}

func (r *Rec) NumDistinct() int64 { return int64(len(r.hset)) + r.Counters["distinct_by_enumeration"] }

// Eval counts executions of the system under test.
func (r *Rec) Eval(n int64) { r.Counters["evaluations"] += n }

// Distinct registers the hash of a non-trivial case.
func (r *Rec) Distinct(h uint64)  { r.hset[h] = struct{}{} }
func (r *Rec) DistinctS(s string) { r.hset[HashStr(s)] = struct{}{} }

// DistinctN adds n cases known distinct by construction (exhaustive
// enumerations); they get synthetic hashes from a namespace + counter.
func (r *Rec) DistinctN(n int64) { r.Counters["distinct_by_enumeration"] += n }

func (r *Rec) Sample(v any) {
	r.sampleSeen++
	if len(r.Samples) < maxSamples {
		r.Samples = append(r.Samples, v)
		return
	}
	// keep a spread: replace deterministically with decreasing frequency
	if r.sampleSeen&(r.sampleSeen-1) == 0 { // powers of two
		r.Samples[(r.sampleSeen>>3)%maxSamples] = v
	}
}

func (r *Rec) NotJudged(reason string) { r.Counters["not_judged:"+reason]++ }

func (r *Rec) Finalize() {
	r.Hashes = r.Hashes[:0]
	for h := range r.hset {
		r.Hashes = append(r.Hashes, h)
	}
	sort.Slice(r.Hashes, func(i, j int) bool { return r.Hashes[i] < r.Hashes[j] })
}

// ---------------------------------------------------------------- case context

type Ctx struct {
	Prop       string
	Tier       string
	Seed       uint64
	Case       int
	R          *Rand
	Rec        *Rec
	Verbose    bool // replay: print the monitor's view
	Avoid      map[string]bool
	Witness    bool // running a known-finding witness
	WitnessHit bool
}

func (c *Ctx) Thorough() bool { return c.Tier == "thorough" }

// Violation records a finding. cluster should abstract literals so that one
// root cause groups together. detail is only built for the first few findings
// of a cluster.
func (c *Ctx) Violation(oracle, cluster string, detail func() map[string]any) {
	if c.Witness {
		c.WitnessHit = true
		if c.Verbose {
			b, _ := json.MarshalIndent(detail(), "  ", " ")
			fmt.Printf("WITNESS flagged oracle=%s cluster=%s\n  %s\n", oracle, cluster, b)
		}
		return
	}
	if len(cluster) > 200 {
		cluster = cluster[:200]
	}
	key := oracle + "|" + cluster
	c.Rec.ClusterCount[key]++
	c.Rec.Counters["violations"]++
	if c.Rec.ClusterCount[key] > maxFindingsPerCluster || len(c.Rec.ClusterCount) > 5000 {
		return
	}
	d := detail()
	c.Rec.Findings = append(c.Rec.Findings, Finding{Prop: c.Prop, Oracle: oracle, Cluster: cluster, Case: c.Case, Tier: c.Tier, Seed: c.Seed, Detail: d})
	if c.Verbose {
		b, _ := json.MarshalIndent(d, "  ", " ")
		fmt.Printf("MONITOR violation oracle=%s cluster=%s\n  %s\n", oracle, cluster, b)
	}
}

// D is shorthand for a detail map.
type D = map[string]any

func (c *Ctx) Logf(format string, a ...any) {
	if c.Verbose {
		fmt.Printf(format+"\n", a...)
	}
}

// ---------------------------------------------------------------- checks

type Gate struct {
	Name     string `json:"name"`
	Observed int64  `json:"observed"`
	Need     int64  `json:"need"`
	OK       bool   `json:"ok"`
}

func GateMin(name string, counters map[string]int64, key string, need int64) Gate {
	v := counters[key]
	return Gate{Name: name, Observed: v, Need: need, OK: v >= need}
}

type Check interface {
	ID() string
	Level() string // exploration | fault_enumeration
	NumCases(tier string) int
	Run(c *Ctx)
	Gates(tier string, counters map[string]int64) []Gate
	Rule() string
	Assumptions() []string
	Exhaustive(tier string) bool
	// RunWitness executes one explicit known-finding witness through the same
	// oracle; it reports through c.Violation (which sets c.WitnessHit).
	RunWitness(c *Ctx, w map[string]any)
	// CaseTimeoutSec is the watchdog budget for one case.
	CaseTimeoutSec() int
}

var registry = map[string]Check{}

func Register(c Check)    { registry[c.ID()] = c }
func Get(id string) Check { return registry[id] }
func IDs() []string {
	var ids []string
	for k := range registry {
		ids = append(ids, k)
	}
	sort.Strings(ids)
	return ids
}

// Base provides defaults.
type Base struct{}

func (Base) Level() string                   { return "exploration" }
func (Base) Exhaustive(string) bool          { return false }
func (Base) RunWitness(*Ctx, map[string]any) {}
func (Base) CaseTimeoutSec() int             { return 30 }
func (Base) Assumptions() []string           { return nil }

// ---------------------------------------------------------------- helpers

// Shape abstracts literals out of a statement so that findings cluster by
// construct: quoted strings -> 'S', numbers -> N.
func Shape(q string) string {
	var b strings.Builder
	i := 0
	for i < len(q) {
		ch := q[i]
		switch {
		case ch == '\'' || ch == '"':
			j := i + 1
			for j < len(q) && q[j] != ch {
				j++
			}
			b.WriteString("'S'")
			i = j + 1
		case ch >= '0' && ch <= '9':
			j := i
			for j < len(q) && ((q[j] >= '0' && q[j] <= '9') || q[j] == '.') {
				j++
			}
			// keep digits glued to identifiers (k1) as part of the word
			if i > 0 && (isWord(q[i-1])) {
				b.WriteString(q[i:j])
			} else {
				b.WriteString("N")
			}
			i = j
		default:
			b.WriteByte(ch)
			i++
		}
	}
	s := b.String()
	if len(s) > 160 {
		s = s[:160]
	}
	return s
}

func isWord(c byte) bool {
	return c == '_' || (c >= 'a' && c <= 'z') || (c >= 'A' && c <= 'Z') || (c >= '0' && c <= '9')
}

func Q(s string) string { return fmt.Sprintf("%q", s) }
