package main

import (
	"fmt"
	"os"

	"kvqlverif/drive"
	"kvqlverif/refstore"
)

func main() {
	ps := []refstore.Pair{{K: "00", V: "a"}, {K: "01", V: "c"}, {K: "a00", V: "b"}, {K: "a01", V: "B"}, {K: "a02", V: "b"}}
	for _, q := range os.Args[1:] {
		for _, b := range []bool{false, true} {
			for _, cache := range []bool{false, true} {
				st := refstore.New(ps)
				o := drive.Run(q, st, drive.Mode{Batch: b, Size: 1, Cache: cache})
				fmt.Printf("batch=%v cache=%v status=%s rows=%v err=%v\n", b, cache, o.Status(), o.Rows, o.Err())
			}
		}
	}
}
