package checks

import (
	"fmt"

	"kvqlverif/drive"
	"kvqlverif/gen"
	"kvqlverif/refstore"
	"kvqlverif/rt"
)

// Entry points for the coverage-guided stage of C06 (harness/fuzzq): the same
// monitors as c06.exec, over inputs chosen by go's native fuzzing engine.

// C06FuzzSeeds returns the hostile corpus plus n grammar-generated statements.
func C06FuzzSeeds(n int) []string {
	out := append([]string{}, c06Hostile...)
	for i := 0; i < n; i++ {
		r := rt.NewRand(1, "C06-fuzz-seed", uint64(i))
		fam := c06StoreFamilies[r.Intn(len(c06StoreFamilies))]
		gs := &gen.Store{Family: fam, Pairs: c06Store(r, fam)}
		g := fullGenFor(&rt.Ctx{}, gs, r)
		g.RefBias = r.Intn(3)
		stmt := g.Any(r.Range(1, 3))
		out = append(out, stmt.Text(gen.Style{Paren: r.Intn(4), R: r.Fork(), Case: r.Chance(1, 3), Tight: r.Chance(1, 4)}))
	}
	return out
}

// C06FuzzOne runs one statement under the C06 monitors; "" means held.
func C06FuzzOne(q string, storeSel, modeSel byte) (verdict string, status string) {
	fam := c06StoreFamilies[int(storeSel)%len(c06StoreFamilies)]
	ps := c06Store(rt.NewRand(7, "C06-fuzz-store", uint64(storeSel)), fam)
	sizes := []int{1, 2, 3, 32}
	m := drive.Mode{Batch: modeSel&1 != 0, Size: sizes[int(modeSel>>1)%len(sizes)], Cache: modeSel&8 != 0}
	st := refstore.New(ps)
	st.NoLog = true
	st.MaxCalls = 64*(len(ps)+len(q)) + 1024
	o := drive.Run(q, st, m)
	status = o.Status()
	switch {
	case status == "panic":
		return fmt.Sprintf("panic in %s at %s: %s (store %s, mode %s)", o.PanicPhase, o.Frame, o.Panic, fam, m), status
	case st.OverBudget:
		return fmt.Sprintf("storage call budget exceeded: %d calls > %d (store %s, mode %s)", st.Calls(), st.MaxCalls, fam, m), status
	case status == "runaway":
		return fmt.Sprintf("more than 20000 rows (store %s, mode %s)", fam, m), status
	}
	if err := o.Err(); err != nil {
		if _, pan, frame := drive.Render(err, q, []int{0, 7, 20}); pan != "" {
			return fmt.Sprintf("panic while rendering the error at %s: %s", frame, pan), status
		}
	}
	if pan := c06BuildExecutor(q); pan != "" {
		return "panic in BuildExecutor: " + pan, "panic"
	}
	return "", status
}
