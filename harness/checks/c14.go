package checks

import (
	"strings"

	"kvqlverif/drive"
	"kvqlverif/gen"
	"kvqlverif/refstore"
	"kvqlverif/rt"
)

// C14 — statically wrong statements are rejected before any storage access;
// well-typed ones are accepted and do not fail with operand-type errors.
// Typed grammar + single-fault mutants placed at every syntactic position;
// zero-call storage log for the rejected ones.

type c14 struct{ rt.Base }

func init() { rt.Register(&c14{}) }

func (c14) ID() string { return "C14" }

func (c14) NumCases(tier string) int {
	if tier == "thorough" {
		return 400000
	}
	return 20000
}

func (c14) Rule() string {
	return "positive: well-typed statements from the typed grammar (documented typing table) must be accepted, and executing them in row and batch mode on conforming stores must not fail (the generator excludes by construction the data-dependent failures the engine legitimately reports: zero divisors, bad patterns, reversed bounds, unequal vector lengths, dynamically typed JSON members); negative: every single-fault mutant - an operator applied to unsupported operand types, a non-Boolean WHERE or ! operand, key/value where the statement form forbids them, an unknown function, an argument count off by one, a constant aggregate parameter of the wrong type - with the fault placed at top level, under !, inside a call argument, below a (cascaded) field access, in an operand that constant folding removes, through a name carried by two fields of different types (the first decides), an IN item, a BETWEEN bound, a select field, an aggregate argument, or a PUT/REMOVE/DELETE expression must make BuildPlan return an error with an empty storage log whatever the store holds. Non-trivial: every generated statement; distinct by statement text."
}

func (c14) Assumptions() []string {
	return []string{"typing table from README/spec: = != same type; ^= ~= text; ordering on text or number; + number or text, - * / number; & | ! Boolean; IN/BETWEEN homogeneous; function known and arity right; `value` forbidden in PUT, key/value in REMOVE; WHERE Boolean", "function argument *types* are not part of the property (only known name and argument count)", "a bare true/false as operand of & | and alias names outside operand/argument positions are refused by the engine and not generated (register B8, B12)"}
}

func (c14) Gates(tier string, m map[string]int64) []rt.Gate {
	gs := []rt.Gate{rt.GateMin("well-typed statements accepted and executed", m, "positive_ok", 2000), rt.GateMin("single-fault mutants rejected with an empty log", m, "negative_ok", 2000)}
	for _, f := range []string{"operand-type", "non-boolean-where", "non-boolean-not", "forbidden-keyword", "unknown-function", "arity"} {
		gs = append(gs, rt.GateMin("fault kind "+f, m, "fault:"+f, 50))
	}
	for _, p := range []string{"top", "under-not", "call-arg", "in-item", "between-bound", "select-field", "aggregate-arg", "put", "remove", "delete", "and-or-operand", "under-index", "folded-away-operand", "duplicate-name", "name-chain", "nested-in-list-item"} {
		gs = append(gs, rt.GateMin("fault position "+p, m, "pos:"+p, 20))
	}
	return gs
}

var c14Families = []string{gen.FNum, gen.FNum, gen.FTiny, gen.FFloat, gen.FMixed, gen.FWide, gen.FRel, gen.FTies}

// a faulty expression of (claimed) type t; returns the node and the fault kind.
func c14Faulty(r *rt.Rand, t gen.T) (*gen.Node, string) {
	K, V := gen.Key, gen.Value
	switch r.Intn(7) {
	case 0: // unknown function
		name := []string{"nosuch", "uper", "to_int", "length", "substring"}[r.Intn(5)]
		n := gen.Call(name, V())
		n.T = t
		return n, "unknown-function"
	case 1: // arity +-1
		var n *gen.Node
		switch t {
		case gen.TS:
			if r.Bool() {
				n = gen.Call("upper", V(), K())
			} else {
				n = gen.Call("lower")
			}
		case gen.TN:
			if r.Bool() {
				n = gen.Call("int", V(), gen.Int(1))
			} else {
				n = gen.Call("strlen")
			}
		default:
			if r.Bool() {
				n = gen.Call("is_int", V(), V())
			} else {
				n = gen.Call("is_float")
			}
		}
		return n, "arity"
	}
	// operator applied to operand types it does not support
	var n *gen.Node
	switch t {
	case gen.TS:
		switch r.Intn(3) {
		case 0:
			n = gen.Bin("+", K(), gen.Int(1)) // text + number
			n.T = gen.TS
		case 1:
			n = gen.Bin("+", gen.Call("upper", V()), gen.Call("strlen", K()))
			n.T = gen.TS
		default:
			n = gen.Call("upper", gen.Bin("-", V(), gen.Str("a"))) // text - text inside
		}
	case gen.TN:
		switch r.Intn(4) {
		case 0:
			n = gen.Bin("-", K(), gen.Int(1))
		case 1:
			n = gen.Bin("*", gen.Call("int", V()), gen.Str("2"))
		case 2:
			n = gen.Bin("/", gen.Int(4), gen.Bin("=", K(), gen.Str("a")))
		default:
			n = gen.Bin("+", gen.Int(1), V())
		}
	default:
		switch r.Intn(12) {
		case 10: // an element of a list of numbers is a number
			n = gen.Bin("=", gen.IndexI(gen.Call([]string{"ilist", "int_list", "flist"}[r.Intn(3)], gen.Int(1), gen.Int(2)), 0), gen.Str("1"))
		case 11:
			n = gen.Bin("^=", gen.IndexI(gen.Call("list", gen.Call("int", V()), gen.Int(2)), 1), gen.Str("2"))
		case 6: // the keywords and / or take Boolean operands like & and | do
			if r.Bool() {
				n = gen.And(gen.Int(1), gen.Int(2))
			} else {
				n = gen.Or(K(), V())
			}
			n.Sym = false // spelled with the keyword
		case 7: // a Boolean on the left of IN
			n = gen.In(gen.Bin("=", K(), gen.Str("a")), gen.Bool(true), gen.Bool(false))
		case 8: // = between lists
			n = gen.Bin("=", gen.Call("split", K(), gen.Str("a")), gen.Call("split", K(), gen.Str("b")))
		case 9: // != between lists
			n = gen.Bin("!=", gen.Call("list", gen.Int(1), gen.Int(2)), gen.Call("list", gen.Int(1), gen.Int(2)))
		case 0:
			n = gen.Bin("=", K(), gen.Int(1)) // text = number
		case 1:
			n = gen.Bin("^=", gen.Call("int", V()), gen.Str("1")) // ^= on a number
		case 2:
			n = gen.Bin(">", gen.Bin("=", K(), gen.Str("a")), gen.Bin("=", V(), gen.Str("b"))) // ordering on Booleans
		case 3:
			n = gen.Bin("~=", K(), gen.Int(3))
		case 4:
			n = gen.In(K(), gen.Str("a"), gen.Int(2)) // heterogeneous IN
		default:
			n = gen.Between(gen.Call("int", V()), gen.Int(1), gen.Str("9")) // heterogeneous BETWEEN
		}
	}
	return n, "operand-type"
}

func (k c14) Run(c *rt.Ctx) {
	r := c.R
	st := gen.NewStore(r, c14Families[r.Intn(len(c14Families))])
	if c.Case%2 == 0 {
		k.positive(c, st)
	} else {
		k.negative(c, st)
	}
}

func (k c14) positive(c *rt.Ctx, st *gen.Store) {
	r := c.R
	rec := c.Rec
	g := fullGenFor(c, st, r)
	g.NoJSON = true
	g.NoSubstr = true
	g.NoUnequalVec = true
	g.RefBias = r.Intn(3)
	stmt := g.Any(r.Range(1, 3))
	q := stmt.Text(gen.Style{Paren: []int{0, 1, 3}[r.Intn(3)], R: r.Fork(), Case: r.Chance(1, 4)})
	if r.Chance(1, 15) {
		// two fields under one name, of different types: the name means the FIRST field, so
		// these are well-typed
		q = []string{
			"select strlen(key) as v, upper(key) as v where v > 1",
			"select strlen(value) as n, key as n, value where n * 2 >= 0 & key != 'zz'",
			"select upper(key) as t, strlen(key) as t where t ^= 'K' | t != ''",
			"select key, strlen(key) + 1 as w, lower(value) as w where w between 0 and 100",
		}[r.Intn(4)]
		rec.Inc("duplicate_name_first_field_decides")
	} else if r.Chance(1, 15) {
		// a field defined through another field's name, used by the filter: its type is only
		// known once the inner name is resolved
		q = []string{
			"select key as a, a + 'x' as b where b = 'k1x' | b ^= 'k'",
			"select key as a, a + 'x' as b, value where b in ('bx', 'cx') | b between 'a' and 'z'",
			"select value as v0, v0 + ':' + key as c where !(c >= 'b') | c + 'y' != 'q'",
			"select strlen(key) as n, n * 2 as m, key where m >= 2 & m between 0 and 100",
			"select key as a, upper(a) as u, u + a as w where w != 'x' & strlen(w) > 0",
		}[r.Intn(5)]
		rec.Inc("name_chain_in_where")
	} else if r.Chance(1, 15) {
		// grouping by a field that is not selected (as many select fields as grouping fields, or
		// fewer): an aggregate statement like any other; Boolean operands of =, keyword and/or
		q = []string{
			"select count(1) where key != 'zz' group by value",
			"select key, count(1) where key != 'zz' group by key, value",
			"select count(1), max(key) where key != 'zz' group by value, key",
			"select value, count(1) where key != 'zz' group by value, key",
			"select sum(strlen(key)) where true group by value",
			"select key, value where (key = 'a') = (value = 'b') | (key ^= 'k') != is_int(value)",
			"select * where is_int(value) and (key ^= 'k' or !(value = 'x')) and true",
			"select * where key in ('a', 'k1') = (value in ('1', '2'))",
			// the bare name of a select field wherever an operand can stand: under !, as the whole
			// filter, as an item of an IN list, as a BETWEEN bound
			"select is_int(value) as x, key where !x",
			"select key ^= 'k' as x, value where x",
			"select key as a, value where a in ('k1', a, 'zz')",
			"select strlen(key) + 1 as n, key where n between 0 and n",
			"select key as a, value as b where 'k1' in (a, b) | !(a in (b))",
			"select is_int(value) as x, is_float(value) as y where !x | !y",
			// an element of a list of numbers is a number, of a list of texts a text
			"select * where ilist(1, 2)[0] > 0 & flist(1.5, 2.5)[1] < 3",
			"select key, list(strlen(key), 2)[0] * 2 as x where x >= 0 & list(1, 2)[1] = 2",
			"select int_list(strlen(key), 7) as l, key where l[1] = 7 & l[0] between 0 and 99",
			"select key where split('a,b', ',')[0] = 'a' & list('x', 'y')[1] ^= 'y'",
			// an aggregate call as the right operand of arithmetic
			"select 1 + count(1) as c where true",
			"select 100 - sum(strlen(key)) as c, count(1) where key != 'zz'",
			"select value, 2 * sum(strlen(key)) as s where true group by value",
			"select value, count(1) * 2 + (1 + max(strlen(key))) as s where true group by value",
		}[r.Intn(22)]
		rec.Inc("group_by_unselected_fields_and_boolean_operands")
	}
	rec.DistinctS(q)
	for _, m := range []drive.Mode{{Batch: false, Size: pickBatch(c), Cache: true}, {Batch: true, Size: pickBatch(c), Cache: true}} {
		o := drive.Run(q, refstore.New(st.Pairs), m)
		rec.Eval(1)
		c.Logf("positive: %s  mode %s\n  %v", q, m, outcomeBrief(o))
		detail := func() rt.D {
			return rt.D{"statement": q, "store": storeBrief(st.Pairs), "mode": m.String(), "outcome": outcomeBrief(o)}
		}
		switch o.Status() {
		case "panic", "runaway":
			c.Violation("crash", o.Frame, detail)
			return
		case "planerr":
			c.Violation("well-typed-statement-rejected", firstWords(stripPos(o.ErrText()))+" / "+aliasRe.ReplaceAllString(rt.Shape(q), "A"), detail)
			return
		case "execerr":
			if m.Batch && strings.Contains(o.ErrText(), "lower boundary is greater") {
				rec.NotJudged("reversed bounds (data dependent)")
				continue
			}
			c.Violation("accepted-well-typed-statement-fails-at-execution", firstWords(stripPos(o.ErrText()))+" / "+aliasRe.ReplaceAllString(rt.Shape(q), "A"), detail)
			return
		}
	}
	rec.Inc("positive_ok")
	if c.Case%600 == 0 {
		rec.Sample(rt.D{"well_typed": q})
	}
}

func stripPos(s string) string {
	if i := strings.LastIndex(s, " at "); i > 0 {
		return s[:i]
	}
	return s
}

func (k c14) negative(c *rt.Ctx, st *gen.Store) {
	r := c.R
	rec := c.Rec
	g := fullGenFor(c, st, r)
	g.NoJSON = true
	g.NoSubstr = true
	g.NoAlias = true
	K, V := gen.Key, gen.Value
	var q, fault, pos string
	place := r.Intn(22)
	sel := func(field, where string) string { return "select " + field + " where " + where }
	switch place {
	case 0: // top: non-Boolean WHERE
		var n *gen.Node
		if r.Bool() {
			n = g.S(1, false)
		} else {
			n = g.N(1, false)
		}
		if n.K == gen.KRef {
			n = K()
		}
		q, fault, pos = sel("*", gen.Print(n)), "non-boolean-where", "top"
	case 1: // top-level faulty Boolean
		n, f := c14Faulty(r, gen.TB)
		q, fault, pos = sel("*", gen.Print(n)), f, "top"
	case 2: // under !
		if c.Case%3 == 0 {
			// ! binds tighter than a comparison: `!!strlen(value) > 1` negates a number twice, and
			// what is left once both ! are taken away would be a well-typed filter
			rest := []string{"strlen(value) > 1", "upper(key) = 'K1'", "int(value) in (1, 2)", "int(value) + 1 >= 2", "lower(value) ^= 'a'", "strlen(key) between 1 and 3"}[r.Intn(6)]
			w := "!!" + rest
			if r.Bool() {
				w = "key ^= 'k' & " + w
			}
			q, fault, pos = sel("*", w), "non-boolean-not", "under-double-not"
			if r.Chance(1, 4) {
				q = "delete where " + w
			}
		} else if r.Bool() {
			n, f := c14Faulty(r, gen.TB)
			q, fault, pos = sel("*", gen.Print(gen.Not(n))), f, "under-not"
		} else {
			var n *gen.Node
			if r.Bool() {
				n = gen.Call("upper", V())
			} else {
				n = gen.Bin("+", gen.Call("int", V()), gen.Int(1))
			}
			q, fault, pos = sel("*", "!("+gen.Print(n)+")"), "non-boolean-not", "under-not"
		}
	case 3: // operand of and/or
		n, f := c14Faulty(r, gen.TB)
		ok := g.B(1, false)
		var t *gen.Node
		if r.Bool() {
			t = gen.And(ok, n)
		} else {
			t = gen.Or(n, ok)
		}
		t.Sym = r.Bool()
		if r.Chance(1, 3) {
			t = gen.And(g.B(0, false), gen.Not(t))
		}
		q, fault, pos = sel("*", gen.Print(t)), f, "and-or-operand"
	case 4: // inside a call argument
		n, f := c14Faulty(r, gen.TS)
		t := gen.Bin("=", gen.Call("upper", n), gen.Str("A"))
		if r.Bool() {
			nn, ff := c14Faulty(r, gen.TN)
			n, f = nn, ff
			t = gen.Bin(">", gen.Call("strlen", gen.Call("str", n)), gen.Int(1))
		}
		q, fault, pos = sel("*", gen.Print(t)), f, "call-arg"
	case 5: // IN item
		n, f := c14Faulty(r, gen.TS)
		n.T = gen.TS
		q, fault, pos = sel("*", gen.Print(gen.In(K(), gen.Str("a"), n, gen.Str("b")))), f, "in-item"
		if r.Bool() {
			nn, ff := c14Faulty(r, gen.TN)
			q, fault = sel("*", gen.Print(gen.In(gen.Call("int", V()), nn, gen.Int(3)))), ff
		}
	case 6: // BETWEEN bound
		n, f := c14Faulty(r, gen.TN)
		if r.Bool() {
			q = sel("*", gen.Print(gen.Between(gen.Call("int", V()), n, gen.Int(100))))
		} else {
			q = sel("*", gen.Print(gen.Between(gen.Call("int", V()), gen.Int(0), n)))
		}
		fault, pos = f, "between-bound"
	case 7: // select field
		t := []gen.T{gen.TS, gen.TN, gen.TB}[r.Intn(3)]
		n, f := c14Faulty(r, t)
		fields := []string{"key", gen.Print(n), "value"}
		if r.Bool() {
			fields = []string{gen.Print(n) + " as f1", "key"}
		}
		where := []string{"true", "key ^= 'k'", "key = 'k001'", "int(value) > 2", "key >= 'a' & key < 'z'"}[r.Intn(5)]
		q, fault, pos = sel(strings.Join(fields, ", "), where), f, "select-field"
	case 8: // aggregate argument / aggregate arity
		switch r.Intn(4) {
		case 3: // constant parameter of an aggregate of the wrong type
			w := []string{"key ^= 'k'", "true", "key > 'a' & key <= 'z'", "int(value) > 1", "key between 'a' and 'z' limit 3"}[r.Intn(5)]
			if r.Bool() {
				q, fault = sel([]string{"quantile(int(value), 'x')", "group_concat(value, 1)", "count(1), group_concat(key, 2.5)", "quantile(strlen(key), true)"}[r.Intn(4)], w), "operand-type"
			} else {
				q, fault = sel("value as g, "+[]string{"quantile(int(value), 'x')", "group_concat(key, 1)"}[r.Intn(2)], "key ^= 'k' group by g"), "operand-type"
			}
		case 0:
			n, f := c14Faulty(r, gen.TN)
			q, fault = sel("count(1), sum("+gen.Print(n)+")", "key ^= 'k'"), f
		case 1:
			q, fault = sel("sum(int(value), 2)", []string{"key ^= 'k'", "true", "key > 'a'"}[r.Intn(3)]), "arity"
		default:
			q, fault = sel("value as g, "+[]string{"count()", "avg()", "group_concat(value)", "quantile(int(value))", "max(1, 2)"}[r.Intn(5)], "int(value) > 0 group by g"), "arity"
		}
		pos = "aggregate-arg"
	case 9: // PUT
		switch r.Intn(4) {
		case 0:
			q, fault = "put ('k1', value)", "forbidden-keyword"
		case 1:
			q, fault = "put ('k1', 'v'), ('k2', upper(value + 'x'))", "forbidden-keyword"
		case 2:
			n, f := c14Faulty(r, gen.TS)
			q, fault = "put ('k1', 'v1'), ("+gen.Print(n)+", 'v2')", f
		default:
			n, f := c14Faulty(r, gen.TN)
			q, fault = "put ('k1', "+gen.Print(n)+")", f
		}
		if strings.Contains(q, "value") && fault != "forbidden-keyword" {
			fault = "forbidden-keyword"
		}
		pos = "put"
	case 10: // REMOVE
		switch r.Intn(3) {
		case 0:
			q, fault = []string{"remove key", "remove int(key)", "remove 'k1', strlen(value)", "remove 1 + int(key)", "remove 'k1', 'k2', float(value) * 2"}[r.Intn(5)], "forbidden-keyword"
		case 1:
			q, fault = "remove 'a', 'b' + value", "forbidden-keyword"
		default:
			n := gen.Call([]string{"nosuch", "to_key"}[r.Intn(2)], gen.Str("a"))
			q, fault = "remove 'a', "+gen.Print(n), "unknown-function"
			if r.Bool() {
				q, fault = "remove upper('a', 'b')", "arity"
			} else if r.Bool() {
				q, fault = []string{"remove 2 * 'a'", "remove 'k1', 7 - upper('x')", "remove strlen('a') + 'b'"}[r.Intn(3)], "operand-type"
			}
		}
		pos = "remove"
	case 11: // DELETE
		n, f := c14Faulty(r, gen.TB)
		t := gen.And(gen.Bin("^=", K(), gen.Str("k")), n)
		q, fault, pos = "delete where "+gen.Print(t), f, "delete"
		if r.Chance(1, 3) {
			q += " limit 3"
		}
	case 12: // nested deeper: fault inside arithmetic inside comparison inside or
		n, f := c14Faulty(r, gen.TN)
		t := gen.Or(gen.Bin("=", K(), gen.Str("k001")), gen.Bin(">", gen.Bin("+", gen.Call("int", V()), n), gen.Int(1)))
		q, fault, pos = sel("*", gen.Print(t)), f, "and-or-operand"
	case 13: // call argument after an alias-reference argument, fault at operator level
		n, f := c14Faulty(r, []gen.T{gen.TS, gen.TN}[r.Intn(2)])
		fn := gen.Print(n)
		switch r.Intn(4) {
		case 0:
			q = "select key as k1 where join(',', k1, " + fn + ") = 'ab'"
		case 1:
			q = "select key as k1, value as v1 where join(',', k1, v1, " + fn + ") ^= 'a'"
		case 2:
			q = "select key, int(value) as n1 where int_list(n1, " + fn + ")[0] > 1"
		default:
			q = "select key as k1, upper(join('-', k1, " + fn + ")) as u where true"
		}
		fault, pos = f, "call-arg"
	case 17: // a field defined through another field's name, misused by the filter
		q = []string{
			"select int(value) as x, key where x | key = 'a1'",
			"select key, upper(value) as u where key ^= 'b' & u",
			"select strlen(key) as n where !(key = 'a') | n",
			"select split(value, ',') as l, key where l & key != 'zz'",
			"select key, upper(value) as u where key in u",
			"select strlen(key) as n, key where !(n in n) | key = 'a'",
			"select key, value as v, key in v as hit where true",
			"select key as a, a + 'x' as b where b > 1",
			"select key as a, a + 'x' as b where b between 1 and 2",
			"select key as a, a + 'x' as b, value where strlen(value) >= b",
			"select value as v0, v0 + ':' + key as c where !(c = 1)",
			"select strlen(key) as n, n * 2 as m where m ^= 'k'",
			"select key as a, upper(a) as u, u + a as w where w * 2 > 1",
		}[r.Intn(13)]
		fault, pos = "operand-type", "name-chain"
	case 18: // unknown function / wrong argument count nested below an IN item or a BETWEEN bound
		bad := []string{"upper('c', 'd')", "nosuch('x')", "lower(upper('b', 'c'))", "upper(nosuch2('x'))", "str(int(value, 2))", "join()"}[r.Intn(6)]
		fault = "arity"
		if strings.Contains(bad, "nosuch") {
			fault = "unknown-function"
		}
		switch r.Intn(4) {
		case 0:
			q = sel("*", "key in ('a', 'b' + "+bad+")")
		case 1:
			q = sel("key, value", "key between 'a' and 'b' + "+bad)
		case 2:
			q = sel("*", "!(key in ('a', lower("+bad+"), 'c'))")
		default:
			q = "delete where key in ('a', upper(" + bad + "))"
		}
		pos = "nested-in-list-item"
	case 16: // the name of two fields of different types means the first one
		q = []string{
			"select upper(key) as v, strlen(key) as v where v > 1",
			"select key as n, strlen(value) as n, value where n * 2 >= 0",
			"select strlen(key) as t, upper(key) as t where t ^= 'K'",
			"select key, lower(value) as w, strlen(key) + 1 as w where !(w between 0 and 100)",
			"select lower(key) as w, strlen(key) as w, w + 1 as x where key ^= 'k'",
		}[r.Intn(5)]
		fault, pos = "operand-type", "duplicate-name"
	case 15: // in an operand that constant folding removes (true | X, false & X)
		bad := []string{"nosuch(key) = 'a'", "upper(key, 1) = 'A'", "strlen() > 1", "nosuch(1, 2) = 3", "is_int(value, 1)", "lower(nosuch2(value)) = 'a'"}[r.Intn(6)]
		fault = "unknown-function"
		if strings.Contains(bad, "upper(key, 1)") || strings.Contains(bad, "strlen()") || strings.Contains(bad, "is_int(value, 1)") {
			fault = "arity"
		}
		konst := []string{"(1 = 1) | ", "(2 > 3) & ", "('a' = 'a') or ", "(1 + 1 = 3) and "}[r.Intn(4)]
		w := konst + "(" + bad + ")"
		if r.Bool() {
			w = "key ^= 'k' & (" + w + ")"
		}
		q = sel([]string{"*", "key, value", "count(1)"}[r.Intn(3)], w)
		if r.Chance(1, 4) {
			q = "delete where " + w
		}
		pos = "folded-away-operand"
	case 14: // below a field access of one, two or three levels
		lv := r.Range(1, 3)
		idx := strings.Repeat("['a']", lv)
		if r.Bool() {
			idx = "['a']" + strings.Repeat("[0]", lv-1)
		}
		switch r.Intn(5) {
		case 0:
			n, f := c14Faulty(r, gen.TS)
			q, fault = sel("*", "json("+gen.Print(n)+")"+idx+" = 'x'"), f
		case 1:
			n, f := c14Faulty(r, gen.TS)
			q, fault = sel("key, json("+gen.Print(n)+")"+idx, "key ^= 'k'"), f
		case 2:
			q, fault = "put ('k9', json(value)"+idx+")", "forbidden-keyword"
		case 3:
			q, fault = "remove json(key)"+idx, "forbidden-keyword"
		default:
			n, f := c14Faulty(r, gen.TS)
			q, fault = "delete where json("+gen.Print(n)+")"+idx+" = 'x'", f
		}
		pos = "under-index"
	case 19: // DELETE: a WHERE that is not Boolean
		var n *gen.Node
		if r.Bool() {
			n = g.S(1, false)
		} else {
			n = g.N(1, false)
		}
		if n.K == gen.KRef {
			n = K()
		}
		q, fault, pos = "delete where "+gen.Print(n), "non-boolean-where", "delete"
		if r.Chance(1, 3) {
			q += " limit 2"
		}
	case 20: // an aggregate function where only pair-wise functions can stand
		ag := []string{"count(1) > 0", "sum(int(value)) > 1", "max(key) = 'k'", "strlen(group_concat(key, ',')) > 1", "avg(strlen(key)) >= 0"}[r.Intn(5)]
		switch r.Intn(7) {
		case 5: // in a select field, but inside the arguments of another call or under !
			q = sel([]string{"upper(group_concat(key, ','))", "!(count(1) > 2)", "sum(int(count(1)))", "strlen(max(key)) + 1", "key, str(sum(int(value)))", "count(1), lower(min(key)) as m", "value, join('-', value, count(1))"}[r.Intn(7)],
				[]string{"true", "key ^= 'k'", "int(value) > 0"}[r.Intn(3)])
			if strings.HasPrefix(q, "select value,") {
				q += " group by value"
			}
		case 6:
			q = sel("key as k, "+[]string{"upper(group_concat(key, ','))", "strlen(max(value))"}[r.Intn(2)]+" as u", "key ^= 'k' group by k")
		case 0:
			q = sel("*", ag)
		case 1:
			q = sel("key, value", "key ^= 'k' & "+ag)
		case 2:
			q = "delete where " + ag
		case 3:
			q = "put ('k1', " + []string{"count(1)", "str(sum(1))", "max('a')"}[r.Intn(3)] + ")"
		default:
			q = "remove " + []string{"max('a')", "group_concat('a', 'b')", "str(count(1))"}[r.Intn(3)]
		}
		fault, pos = "aggregate-outside-select-fields", "filter-or-write"
	default: // index base / index misuse
		n, f := c14Faulty(r, gen.TS)
		t := gen.Bin("=", gen.IndexI(gen.Call("split", n, gen.Str(",")), 0), gen.Str("a"))
		q, fault, pos = sel("*", gen.Print(t)), f, "call-arg"
	}
	s := refstore.New(st.Pairs)
	o := drive.Run(q, s, drive.Mode{Batch: r.Bool(), Size: 3, Cache: true})
	rec.Eval(1)
	rec.DistinctS(q)
	rec.Inc("fault:" + fault)
	rec.Inc("pos:" + pos)
	log := s.Log()
	c.Logf("negative (%s at %s): %s\n  %v\n  log %v", fault, pos, q, outcomeBrief(o), refstore.FormatLog(log))
	detail := func() rt.D {
		return rt.D{"statement": q, "fault": fault, "position": pos, "store": storeBrief(st.Pairs), "outcome": outcomeBrief(o), "storage_log": trimLog(refstore.FormatLog(log))}
	}
	if o.Status() == "panic" || o.Status() == "runaway" {
		c.Violation("crash", o.Frame, detail)
		return
	}
	if o.PlanErr == nil {
		c.Violation("statically-wrong-statement-accepted", fault+" at "+pos+" / "+rt.Shape(q), detail)
		return
	}
	if len(log) > 0 {
		c.Violation("storage-access-before-rejection", fault+" at "+pos+" / "+log[0].OpS, detail)
		return
	}
	rec.Inc("negative_ok")
	if c.Case%601 == 0 {
		rec.Sample(rt.D{"mutant": q, "fault": fault, "position": pos, "rejected_with": stripPos(o.ErrText())})
	}
}
