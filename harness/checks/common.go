package checks

import (
	"fmt"
	"strconv"

	kvql "github.com/c4pt0r/kvql"

	"kvqlverif/drive"
	"kvqlverif/gen"
	"kvqlverif/refstore"
	"kvqlverif/rt"
)

var batchSizesQuick = []int{1, 2, 3, 5, 32}
var batchSizesThorough = []int{1, 2, 3, 4, 5, 8, 32, 33, 64}

func batchSizes(c *rt.Ctx) []int {
	if c.Thorough() {
		return batchSizesThorough
	}
	return batchSizesQuick
}

func pickBatch(c *rt.Ctx) int {
	bs := batchSizes(c)
	return bs[c.R.Intn(len(bs))]
}

func scanKind(p kvql.FinalPlan) string {
	switch p.(type) {
	case *kvql.RemovePlan:
		return "remove"
	case *kvql.PutPlan:
		return "put"
	}
	switch drive.ScanNode(p).(type) {
	case *kvql.EmptyResultPlan:
		return "empty"
	case *kvql.MultiGetPlan:
		return "mget"
	case *kvql.PrefixScanPlan:
		return "prefix"
	case *kvql.RangeScanPlan:
		return "range"
	case *kvql.FullScanPlan:
		return "full"
	}
	return "other"
}

func pairRows(ps []refstore.Pair) [][]string {
	out := make([][]string, len(ps))
	for i, p := range ps {
		out[i] = []string{"T" + strconv.Quote(p.K), "T" + strconv.Quote(p.V)}
	}
	return out
}

func outcomeBrief(o *drive.Outcome) map[string]any {
	m := map[string]any{"status": o.Status()}
	switch o.Status() {
	case "panic":
		m["panic"] = o.Panic
		m["phase"] = o.PanicPhase
		m["frame"] = o.Frame
	case "planerr", "execerr":
		m["error"] = o.ErrText()
	}
	if o.Rows != nil {
		m["rows"] = drive.Trunc(o.Rows, 12)
	}
	if o.Explain != nil {
		m["explain"] = o.Explain
	}
	return m
}

func storeBrief(ps []refstore.Pair) any {
	if len(ps) <= 24 {
		return drive.PairsOf(ps)
	}
	return map[string]any{"first": drive.PairsOf(ps[:24]), "total": len(ps)}
}

func fmtMode(m drive.Mode) string { return m.String() }

func newStore(st *gen.Store) *refstore.Store { return refstore.New(st.Pairs) }

func sprintf(f string, a ...any) string { return fmt.Sprintf(f, a...) }
