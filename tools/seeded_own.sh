#!/bin/bash
# Runs every kept seeded defect against the check of its OWN property at several seeds (quick tier)
# and writes seeded/OWN.tsv: id, seed, exit code. A defect caught at one seed only is a marginal catch.
# usage: tools/seeded_own.sh [out.tsv]      env: SEEDS (default "1 2 3"), PAR (default 5), MUTANTS
cd "$(dirname "$0")/.." || exit 2
export V=$(pwd)
OUT=${1:-seeded/OWN.tsv}
export SEEDS=${SEEDS:-1 2 3}
PAR=${PAR:-5}
export VERIF_WORKERS=${VERIF_WORKERS:-4}
one() {
  d=$1; id=$(basename "$d"); c=${id%%-*}
  ju=$(python3 -c "import json,sys; print(json.load(open(sys.argv[1])).get('judged_under',''))" "$d/meta.json"); [ -n "$ju" ] && c=$ju
  python3 - "$d/meta.json" <<'PY' || exit 0
import json,sys
m=json.load(open(sys.argv[1]))
ok=not m.get("excluded") and m.get("applies") and m.get("compiles") and m.get("existing_suite_passes_with_change") and m.get("demo_fails_with_change") and m.get("demo_passes_without_change")
sys.exit(0 if ok else 1)
PY
  # a small fixed set of worktree paths (slots): the Go build cache is keyed by the path of the
  # replaced module, so a fresh path per defect would recompile (and cache) everything each time
  slot=""
  while [ -z "$slot" ]; do
    for n in $(seq 1 ${PAR:-4}); do
      if mkdir "/tmp/seedown.lock.$n" 2>/dev/null; then slot=$n; break; fi
    done
    [ -z "$slot" ] && sleep 1
  done
  SW=/tmp/seedown.slot$slot; SC=$V/.work/seedown.slot$slot
  trap 'git -C /repo worktree remove --force "$SW" >/dev/null 2>&1; rm -rf "$SC" "$SW"; rmdir "/tmp/seedown.lock.$slot"' EXIT
  git -C /repo worktree remove --force "$SW" >/dev/null 2>&1; rm -rf "$SW" "$SC"
  git -C /repo worktree add --detach "$SW" HEAD >/dev/null 2>&1 || exit 0
  ( cd "$SW" && { git apply "$V/$d/patch.diff" 2>/dev/null || { git apply -3 "$V/$d/patch.diff" >/dev/null 2>&1 && git reset -q; }; } ) || { printf '%s\t*\tnoapply\n' "$id"; exit 0; }
  mkdir -p "$SC"
  for s in $SEEDS; do
    VERIF_SEED=$s VERIF_REPO="$SW" VERIF_WORK_SUFFIX=".ownslot$slot" VERIF_EVIDENCE_DIR="$SC" VERIF_REPLAY_DIR="$SC" ./run.sh "$c" quick > "$SC/out" 2>&1
    printf '%s\t%s\t%s\n' "$id" "$s" "$?"
  done
}
export -f one
export PAR
rmdir /tmp/seedown.lock.* 2>/dev/null
ls -d ${MUTANTS:-seeded/C*-[a-z]*} | xargs -P "$PAR" -I{} bash -c 'one {}' > "$OUT.tmp"
sort "$OUT.tmp" > "$OUT"; rm -f "$OUT.tmp"
echo "own-check table written to $OUT: $(wc -l < "$OUT") rows; not caught: $(awk -F'\t' '$3!=1' "$OUT" | wc -l)"
