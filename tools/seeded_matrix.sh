#!/bin/bash
# Runs every kept seeded defect against every check (quick tier) and writes seeded/MATRIX.tsv
# usage: tools/seeded_matrix.sh [out.tsv] [checks...]
cd "$(dirname "$0")/.." || exit 2
OUT=${1:-seeded/MATRIX.tsv}; shift
CHECKS=${*:-C01 C02 C03 C04 C05 C06 C07 C08 C09 C10 C11 C12 C13 C14 C15 C16 C17 C18 C19}
: > "$OUT"
for d in seeded/C*-[ab]; do
  id=$(basename "$d")
  [ -f "$d/patch.diff" ] || continue
  python3 - "$d/meta.json" <<'PY' || continue
import json,sys
m=json.load(open(sys.argv[1]))
ok=m.get("applies") and m.get("compiles") and m.get("existing_suite_passes_with_change") and m.get("demo_fails_with_change") and m.get("demo_passes_without_change")
sys.exit(0 if ok else 1)
PY
  for c in $CHECKS; do
    rc=$(./seedtest.sh "$d/patch.diff" "$c" quick | sed -n 's/^SEEDTEST.*exit=\([0-9]*\)$/\1/p')
    printf '%s\t%s\t%s\n' "$id" "$c" "${rc:-?}" >> "$OUT"
  done
done
echo "matrix written to $OUT"
