package checks

import (
	"fmt"
	"sort"
	"strings"

	kvql "github.com/c4pt0r/kvql"

	"kvqlverif/drive"
	"kvqlverif/gen"
	"kvqlverif/refstore"
	"kvqlverif/rt"
)

// C18 — key-pinning filters read only the pinned keys or region. Log grammar
// over the refstore event log of a full drain.

type c18 struct{ rt.Base }

func init() { rt.Register(&c18{}) }

func (c18) ID() string { return "C18" }

type c18Atom struct {
	n    *gen.Node
	kind string   // eq, in, prefix, ge, le, between, opaque
	set  []string // eq/in
	lo   *string  // closed interval; nil = unbounded
	hi   *string
	pre  string
	open bool // strict comparison: the bound itself does not satisfy the atom (regions are still taken closed)
}

func sp(s string) *string { return &s }

var c18Pool = []string{"a", "ab", "b", "abc", "c", "ba"}

func c18Pinning(canonOnly bool) []c18Atom {
	var out []c18Atom
	K := gen.Key
	for _, l := range c18Pool {
		out = append(out, c18Atom{n: gen.Bin("=", K(), gen.Str(l)), kind: "eq", set: []string{l}})
		out = append(out, c18Atom{n: gen.Bin("^=", K(), gen.Str(l)), kind: "prefix", pre: l})
		out = append(out, c18Atom{n: gen.Bin(">=", K(), gen.Str(l)), kind: "ge", lo: sp(l)})
		out = append(out, c18Atom{n: gen.Bin("<=", K(), gen.Str(l)), kind: "le", hi: sp(l)})
		if !canonOnly {
			out = append(out, c18Atom{n: gen.Bin(">", K(), gen.Str(l)), kind: "ge", lo: sp(l), open: true})
			out = append(out, c18Atom{n: gen.Bin("<", K(), gen.Str(l)), kind: "le", hi: sp(l), open: true})
		}
	}
	for i, a := range c18Pool {
		for j, b := range c18Pool {
			if i < j {
				out = append(out, c18Atom{n: gen.In(K(), gen.Str(a), gen.Str(b)), kind: "in", set: []string{a, b}})
			}
			if a < b {
				out = append(out, c18Atom{n: gen.Between(K(), gen.Str(a), gen.Str(b)), kind: "between", lo: sp(a), hi: sp(b)})
			}
		}
	}
	if !canonOnly {
		// the literal on the left pins just the same
		for _, l := range []string{"b", "ab"} {
			out = append(out, c18Atom{n: gen.Bin("=", gen.Str(l), K()), kind: "eq", set: []string{l}})
			out = append(out, c18Atom{n: gen.Bin("<=", gen.Str(l), K()), kind: "ge", lo: sp(l)})
			out = append(out, c18Atom{n: gen.Bin(">=", gen.Str(l), K()), kind: "le", hi: sp(l)})
		}
		// literals with a blank at either end pin what they spell (wave 15, C18-ab: trimmed by the lexer)
		out = append(out, c18Atom{n: gen.Bin("=", K(), gen.Str(" a")), kind: "eq", set: []string{" a"}})
		out = append(out, c18Atom{n: gen.Bin("^=", K(), gen.Str("a ")), kind: "prefix", pre: "a "})
		out = append(out, c18Atom{n: gen.In(K(), gen.Str("a "), gen.Str("b ")), kind: "in", set: []string{"a ", "b "}})
		out = append(out, c18Atom{n: gen.Between(K(), gen.Str("a "), gen.Str("a 9")), kind: "between", lo: sp("a "), hi: sp("a 9")})
		out = append(out, c18Atom{n: gen.Bin(">=", K(), gen.Str("c ")), kind: "ge", lo: sp("c ")})
		// the empty literal pins the (single) empty key like any other literal
		out = append(out, c18Atom{n: gen.Bin("=", K(), gen.Str("")), kind: "eq", set: []string{""}})
		out = append(out, c18Atom{n: gen.In(K(), gen.Str("")), kind: "in", set: []string{""}})
		out = append(out, c18Atom{n: gen.In(K(), gen.Str(""), gen.Str("")), kind: "in", set: []string{""}})
		out = append(out, c18Atom{n: gen.In(K(), gen.Str(""), gen.Str("b")), kind: "in", set: []string{"", "b"}})
		// BETWEEN with reversed bounds selects nothing on its face; BETWEEN '' AND '' pins the empty key
		out = append(out, c18Atom{n: gen.Between(K(), gen.Str("c"), gen.Str("a")), kind: "between", lo: sp("c"), hi: sp("a")})
		out = append(out, c18Atom{n: gen.Between(K(), gen.Str("b"), gen.Str("ab")), kind: "between", lo: sp("b"), hi: sp("ab")})
		out = append(out, c18Atom{n: gen.Between(K(), gen.Str(""), gen.Str("")), kind: "between", lo: sp(""), hi: sp("")})
		// an upper bound at the empty literal: nothing but the empty key lies below it
		out = append(out, c18Atom{n: gen.Bin("<=", K(), gen.Str("")), kind: "le", hi: sp("")})
		out = append(out, c18Atom{n: gen.Bin("<", K(), gen.Str("")), kind: "le", hi: sp(""), open: true})
		out = append(out, c18Atom{n: gen.Bin(">=", gen.Str(""), K()), kind: "le", hi: sp("")})
	}
	return out
}

var c18All = c18Pinning(false)
var c18Canon = c18Pinning(true)

var c18Opaque = []*gen.Node{
	gen.Bin("=", gen.Value(), gen.Str("x")),
	gen.Call("is_int", gen.Value()),
	gen.Bin("!=", gen.Key(), gen.Str("zz")),
	gen.Bin("~=", gen.Key(), gen.Str("[abc]")),
}

// enumeration: singles (x opaque placements), all pairs over c18All, triples
// over canonical atoms (thorough: all; quick: sampled).
func c18NSingles() int { return len(c18All) * 9 }
func c18NPairs() int   { return len(c18All) * len(c18All) * 2 }
func c18NTriples() int { m := len(c18Canon); return m * m * m }

const c18Block = 32

func (c18) NumCases(tier string) int {
	n := c18NSingles() + c18NPairs()
	if tier == "thorough" {
		n += c18NTriples()
	} else {
		n += 20000
	}
	return (n+c18Block-1)/c18Block + 1
}

func (c18) Exhaustive(tier string) bool { return true }

func (c18) Rule() string {
	return fmt.Sprintf("all canonical key-pinning shapes (key on the left; a few with the literal on the left): %d pinning atoms (=, IN, ^=, >, >=, <, <=, BETWEEN over the pool %v) alone with 0..2 opaque conjuncts in every placement, all ordered pairs of pinning atoms (with and without an opaque conjunct), triples over %d canonical atoms (all in thorough, 20000 sampled in quick), plus `false`; each inside a randomly chosen statement form (select *, short form, field list, aggregate, delete; with and without LIMIT - also with an offset beyond the matches - and ORDER BY) and drained in row and batch mode over a %d-key store dense around every literal. Non-trivial: the statement is satisfiable and storage reads were observed; distinct by statement text.", len(c18All), c18Pool, len(c18Canon), len(c02Universe))
}

func (c18) Assumptions() []string {
	return []string{"strict bounds are taken closed when forming a conjunct's region", "a read is a key passed to Get or a key returned by Cursor.Next; Cursor()/Seek() calls are not reads", "a batch-mode caller issues one more Batch call after the last non-empty batch", "storage faults are single failing Seek calls; reads are judged whether or not the statement then reports the error (that is C13's)"}
}

func (c18) Gates(tier string, m map[string]int64) []rt.Gate {
	return []rt.Gate{
		rt.GateMin("runs of a pinned statement with a failing Seek", m, "runs_with_a_failing_seek", 1000),
		rt.GateMin("pinned clauses under a LIMIT whose offset exceeds the matches", m, "offset_beyond_the_matches", 200),
		rt.GateMin("satisfiable shapes with reads observed", m, "shapes_with_reads", 1000),
		rt.Gate{Name: "satisfiable shapes WITHOUT any read (nothing monitored)", Observed: m["satisfiable_without_reads"], Need: 0, OK: m["satisfiable_without_reads"] == 0},
		rt.GateMin("unsatisfiable-on-its-face shapes checked", m, "unsat_shapes", 100),
		rt.GateMin("point-read shapes checked", m, "point_read_shapes", 100),
		rt.GateMin("row mode drains", m, "mode:row", 1000),
		rt.GateMin("batch mode drains", m, "mode:batch", 1000),
	}
}

var c18Store = c02StoreA

// c18Sparse: the universe without the boundary keys (only strings over {a,b,c}): after the
// region of a prefix of length n come keys shorter than n.
var c18Sparse = func() []refstore.Pair {
	var out []refstore.Pair
	for _, p := range c02StoreA {
		if strings.Trim(p.K, "abc") == "" {
			out = append(out, p)
		}
	}
	return out
}()

func (k c18) Run(c *rt.Ctx) {
	lo := c.Case * c18Block
	if c.Case == k.NumCases(c.Tier)-1 {
		// `false` and friends
		k.judge(c, gen.Bool(false), nil, true)
		return
	}
	for i := lo; i < lo+c18Block; i++ {
		idx := i
		if idx < c18NSingles() {
			a := c18All[idx/9]
			v := idx % 9
			var conj []*gen.Node
			switch {
			case v == 0:
				conj = []*gen.Node{a.n}
			case v <= 4:
				conj = []*gen.Node{a.n, c18Opaque[v-1]}
			case v <= 8:
				conj = []*gen.Node{c18Opaque[v-5], a.n, c18Opaque[(v-4)%4]}
			}
			k.judgeConj(c, conj, []c18Atom{a})
			continue
		}
		idx -= c18NSingles()
		if idx < c18NPairs() {
			n := len(c18All)
			a, b := c18All[idx%n], c18All[(idx/n)%n]
			conj := []*gen.Node{a.n, b.n}
			if idx/(n*n) == 1 {
				conj = []*gen.Node{a.n, c18Opaque[idx%4], b.n}
			}
			k.judgeConj(c, conj, []c18Atom{a, b})
			continue
		}
		idx -= c18NPairs()
		m := len(c18Canon)
		if c.Thorough() {
			if idx >= c18NTriples() {
				return
			}
		} else {
			if idx >= 20000 {
				return
			}
			idx = c.R.Intn(c18NTriples())
		}
		a, b, d := c18Canon[idx%m], c18Canon[(idx/m)%m], c18Canon[(idx/(m*m))%m]
		k.judgeConj(c, []*gen.Node{a.n, b.n, d.n}, []c18Atom{a, b, d})
	}
}

func (k c18) judgeConj(c *rt.Ctx, conj []*gen.Node, pins []c18Atom) {
	// build the conjunction with a PRNG-chosen association
	tree := conj[0]
	if len(conj) == 3 && c.R.Bool() {
		tree = gen.And(conj[0], gen.And(conj[1], conj[2]))
	} else {
		for _, x := range conj[1:] {
			tree = gen.And(tree, x)
		}
	}
	k.judge(c, tree, pins, false)
}

// inRegion: -1 before the region, 0 inside, +1 beyond its end.
func (a c18Atom) where(key string) int {
	switch a.kind {
	case "eq", "in":
		for _, s := range a.set {
			if s == key {
				return 0
			}
		}
		return 2 // point sets have no "beyond"
	case "prefix":
		if strings.HasPrefix(key, a.pre) {
			return 0
		}
		if key < a.pre {
			return -1
		}
		return 1
	}
	if a.lo != nil && key < *a.lo {
		return -1
	}
	if a.hi != nil && key > *a.hi {
		return 1
	}
	return 0
}

func c18UnsatOnFace(pins []c18Atom) bool {
	for _, p := range pins {
		if isRange(p) && p.lo != nil && p.hi != nil && *p.lo > *p.hi {
			return true // a range written with its bounds reversed
		}
	}
	for i := range pins {
		for j := i + 1; j < len(pins); j++ {
			a, b := pins[i], pins[j]
			switch {
			case (a.kind == "eq" || a.kind == "in") && (b.kind == "eq" || b.kind == "in"):
				common := false
				for _, x := range a.set {
					for _, y := range b.set {
						if x == y {
							common = true
						}
					}
				}
				if !common {
					return true
				}
			case a.kind == "prefix" && b.kind == "prefix":
				if !strings.HasPrefix(a.pre, b.pre) && !strings.HasPrefix(b.pre, a.pre) {
					return true
				}
			case isRange(a) && isRange(b):
				lo, hi := maxLo(a.lo, b.lo), minHi(a.hi, b.hi)
				if lo != nil && hi != nil && *lo > *hi {
					return true
				}
			}
		}
	}
	return false
}

func isRange(a c18Atom) bool { return a.kind == "ge" || a.kind == "le" || a.kind == "between" }

func maxLo(a, b *string) *string {
	if a == nil {
		return b
	}
	if b == nil || *a >= *b {
		return a
	}
	return b
}

func minHi(a, b *string) *string {
	if a == nil {
		return b
	}
	if b == nil || *a <= *b {
		return a
	}
	return b
}

func (k c18) judge(c *rt.Ctx, tree *gen.Node, pins []c18Atom, isFalse bool) {
	rec := c.Rec
	where := gen.Print(tree)
	// the clause inside different statements: what is read depends on the clause only
	head := []string{"select * where ", "select * where ", "select * where ", "where ", "select key, upper(value) as u where ", "select count(1), max(value) where ", "delete where "}[c.R.Intn(7)]
	tail := ""
	if c.R.Chance(1, 3) {
		// (limit 9 / limit 20: more than most clauses match, fewer than the largest batch size)
		tail = []string{" limit 2", " limit 1, 2", " limit 200, 3", " order by value desc", " order by value limit 300, 2", " limit 9", " limit 20"}[c.R.Intn(7)]
		if strings.HasPrefix(head, "delete") && strings.Contains(tail, "order") {
			tail = " limit 200, 3"
		}
		if strings.HasPrefix(head, "select count") && strings.Contains(tail, "order") {
			tail = " limit 5, 1"
		}
	}
	query := head + where + tail
	rec.Inc("statement_form:" + strings.TrimSpace(strings.TrimSuffix(head, "where ")+"…"+strings.Join(strings.Fields(tail)[:min(1, len(strings.Fields(tail)))], "")))
	unsat := isFalse || c18UnsatOnFace(pins)
	pointRead := false
	for _, p := range pins {
		if p.kind == "eq" || p.kind == "in" {
			pointRead = true
		}
	}
	modes := []drive.Mode{{Batch: false, Size: 32, Cache: true}, {Batch: true, Size: []int{1, 3, 32}[c.R.Intn(3)], Cache: true}}
	for _, pin := range pins {
		if pin.kind == "prefix" && len(pin.pre) >= 2 {
			// also over the sparse store, where the keys right after a prefix region are shorter
			// than the prefix (no boundary keys in between)
			modes = append(modes, drive.Mode{Batch: false, Size: 32, Cache: true, ExtraPolls: 1}, drive.Mode{Batch: true, Size: 3, Cache: true, ExtraPolls: 1})
			break
		}
	}
	for _, m := range modes {
		pairs := c18Store
		if m.ExtraPolls == 1 {
			pairs = c18Sparse
			m.ExtraPolls = 0
			rec.Inc("sparse_store_drains")
		}
		st := refstore.New(pairs)
		o := drive.Run(query, st, m)
		rec.Eval(1)
		md := "row"
		if m.Batch {
			md = "batch"
		}
		rec.Inc("mode:" + md)
		log := st.Log()
		c.Logf("query %s  mode %s\n  outcome %v\n  log %v", query, m, outcomeBrief(o), refstore.FormatLog(log))
		failed := false
		if o.Status() != "ok" {
			switch o.Status() {
			case "panic":
				c.Violation("crash", o.Frame, func() rt.D { return rt.D{"query": query, "outcome": outcomeBrief(o)} })
				return
			case "execerr":
				// a statement that fails on a pair (BETWEEN with equal bounds) has read a part of
				// what it would have read: the reads are judged all the same
				failed = true
				rec.Inc("failing_statements_judged_on_their_reads")
			default:
				rec.NotJudged("statement did not complete: " + o.Status())
				return
			}
		}
		var reads []string
		nextHits := 0
		touched := 0
		for _, e := range log {
			switch e.Op {
			case refstore.OpGet:
				reads = append(reads, e.Key)
				touched++
			case refstore.OpNext:
				touched++
				if e.Res == "hit" {
					reads = append(reads, e.Key)
					nextHits++
				}
			case refstore.OpSeek, refstore.OpCursor:
				touched++
			}
		}
		detail := func(extra rt.D) func() rt.D {
			return func() rt.D {
				d := rt.D{"query": query, "mode": m.String(), "explain": o.Explain, "reads": reads, "rows": len(o.Rows), "storage_log": trimLog(refstore.FormatLog(log))}
				for kk, v := range extra {
					d[kk] = v
				}
				return d
			}
		}
		kinds := make([]string, len(pins))
		for i, p := range pins {
			kinds[i] = p.kind
		}
		sort.Strings(kinds)
		cluster := md + " / " + strings.Join(kinds, "&")
		if unsat {
			rec.Inc("unsat_shapes")
			if touched > 0 {
				c.Violation("unsatisfiable-clause-touches-storage", cluster, detail(rt.D{"storage_calls": touched}))
				return
			}
			continue
		}
		if len(reads) == 0 && failed {
			continue
		}
		if len(reads) == 0 {
			// satisfiable clause without a single read: either legitimately
			// empty by deeper reasoning (e.g. key = 'a' & key ^= 'b'), or
			// nothing was monitored
			if (len(o.Rows) == 0 || strings.HasPrefix(head, "delete")) && c18DeepUnsat(pins) {
				rec.Inc("deep_unsat_no_reads")
			} else if _, direct := o.Plan.(*kvql.RemovePlan); direct {
				rec.Inc("delete_by_direct_removal_without_reads")
			} else {
				rec.Inc("satisfiable_without_reads")
				c.Rec.Sample(rt.D{"satisfiable_without_reads": query, "mode": m.String(), "explain": o.Explain})
			}
			continue
		}
		rec.Inc("shapes_with_reads")
		rec.DistinctS(where + md)
		if strings.Contains(tail, "limit 200") || strings.Contains(tail, "limit 300") {
			rec.Inc("offset_beyond_the_matches")
		}
		if pointRead {
			rec.Inc("point_read_shapes")
			if nextHits > 0 {
				c.Violation("scan-instead-of-point-reads", cluster, detail(rt.D{"keys_returned_by_next": nextHits}))
				return
			}
		}
		// some conjunct's region must contain every read (+1 beyond its end)
		ok := false
		best := ""
		for _, p := range pins {
			before, beyond, other := 0, 0, 0
			for _, kk := range reads {
				switch p.where(kk) {
				case -1:
					before++
				case 1:
					beyond++
				case 2:
					other++
				}
			}
			if before == 0 && other == 0 && beyond <= 1 {
				ok = true
				break
			}
			best += fmt.Sprintf("[%s: %d before, %d beyond, %d outside] ", p.kind, before, beyond, other)
		}
		if !ok {
			c.Violation("read-outside-every-pinned-region", cluster, detail(rt.D{"per_conjunct": best}))
			return
		}
		// the same statement with each positioning call (Seek) failing once: whatever is read
		// before the statement ends must still lie inside a pinned region
		for fi, e := range log {
			if e.Op != refstore.OpSeek {
				continue
			}
			fst := refstore.New(pairs)
			fst.FailAt = fi
			fst.Transient = true
			fo := drive.Run(query, fst, m)
			rec.Eval(1)
			rec.Inc("runs_with_a_failing_seek")
			if fo.Status() == "panic" {
				rec.NotJudged("statement panics after a failing Seek (C13/C06)")
				continue
			}
			var freads []string
			for _, fe := range fst.Log() {
				if (fe.Op == refstore.OpGet || fe.Op == refstore.OpNext) && fe.Res == "hit" {
					freads = append(freads, fe.Key)
				}
			}
			if len(freads) == 0 {
				continue
			}
			fok := false
			for _, p := range pins {
				before, beyond, other := 0, 0, 0
				for _, kk := range freads {
					switch p.where(kk) {
					case -1:
						before++
					case 1:
						beyond++
					case 2:
						other++
					}
				}
				if before == 0 && other == 0 && beyond <= 1 {
					fok = true
					break
				}
			}
			if !fok {
				flog := fst.Log()
				c.Violation("read-outside-every-pinned-region", cluster+" / after a failing Seek", func() rt.D {
					return rt.D{"query": query, "mode": m.String(), "failed_call": fi, "reads": freads, "storage_log": trimLog(refstore.FormatLog(flog)), "outcome": outcomeBrief(fo)}
				})
				return
			}
		}
	}
	if c.Case%400 == 0 && c.R.Chance(1, 8) {
		rec.Sample(rt.D{"query": query})
	}
}

// c18DeepUnsat: the conjunction of the closed regions is empty although not
// "on its face" (e.g. an equality outside a prefix): no read is acceptable.
func c18DeepUnsat(pins []c18Atom) bool {
	excluded := func(p c18Atom, kk string) bool {
		return p.open && ((p.hi != nil && kk == *p.hi) || (p.lo != nil && kk == *p.lo))
	}
	for _, kk := range c02Universe {
		all := true
		for _, p := range pins {
			if p.where(kk) != 0 || excluded(p, kk) {
				all = false
				break
			}
		}
		if all {
			return false
		}
	}
	// no universe key satisfies every conjunct; also check the literals themselves
	for _, l := range c18Pool {
		all := true
		for _, p := range pins {
			if p.where(l) != 0 || excluded(p, l) {
				all = false
				break
			}
		}
		if all {
			return false
		}
	}
	return true
}
