#!/bin/bash
# seedtest.sh <patch> <ID> [tier] : run one check against a seeded defect.
# The patch is applied to a scratch worktree of /repo's HEAD (never to /repo itself, so that other
# runs are not disturbed); run.sh builds against it through VERIF_REPO; evidence and replay files of
# the run go to a scratch directory. Prints the verdict lines and the check's exit code.
set -u
PATCH=$(realpath "$1"); ID=$2; TIER=${3:-quick}
SW=/tmp/seedrepo.slot
git -C /repo worktree remove --force "$SW" >/dev/null 2>&1; rm -rf "$SW"
git -C /repo worktree add --detach "$SW" HEAD >/dev/null 2>&1 || { echo "cannot create worktree"; exit 2; }
trap 'git -C /repo worktree remove --force "$SW" >/dev/null 2>&1; rm -rf "/verif/.work/seed.$$"' EXIT
cd "$SW" || exit 2
if git apply --check "$PATCH" 2>/dev/null; then git apply "$PATCH"
elif git apply -3 "$PATCH" >/dev/null 2>&1 && [ -z "$(git diff --name-only --diff-filter=U)" ]; then git reset -q
else echo "SEEDTEST patch does not apply: $PATCH"; exit 3; fi
mkdir -p "/verif/.work/seed.$$"
cd /verif && VERIF_REPO="$SW" VERIF_WORK_SUFFIX=".seed$$" VERIF_EVIDENCE_DIR="/verif/.work/seed.$$" VERIF_REPLAY_DIR="/verif/.work/seed.$$" ./run.sh "$ID" "$TIER" > "/verif/.work/seed.$$/out" 2>&1
rc=$?
grep -E '^(VIOLATION|INCONCLUSIVE|SUMMARY|KNOWN)' "/verif/.work/seed.$$/out" | head -6
grep -A1 '^VIOLATION' "/verif/.work/seed.$$/out" | grep oracle | head -4
rm -rf "/verif/.work/$ID-$TIER.seed$$" "/verif/.work/C19-$TIER.seed$$.race" 2>/dev/null
echo "SEEDTEST $ID $(basename $(dirname $PATCH))/$(basename $PATCH) exit=$rc"
exit 0
