package checks

import (
	kvql "github.com/c4pt0r/kvql"

	"errors"
	"fmt"

	"kvqlverif/drive"
	"kvqlverif/gen"
	"kvqlverif/refstore"
	"kvqlverif/rt"
)

// C13 — SELECT is read-only; rejected statements touch nothing; storage errors
// surface. Fault enumeration: for every statement/store/mode the fault-free
// sequence of storage calls is recorded, then each call position in turn is
// made to fail; the log grammar requires: no further storage call after the
// failing one, and the API call in progress returns an error that errors.Is
// the injected one.

type c13 struct{ rt.Base }

func init() { rt.Register(&c13{}) }

func (c13) ID() string    { return "C13" }
func (c13) Level() string { return "fault_enumeration" }

type c13Case struct {
	q     string
	n     int // store size
	b     int // batch size
	batch bool
}

var c13Wheres = []string{
	"key in ('k001', 'k003', 'zz')", "key = 'k002'", "key ^= 'k'", "key ^= 'k00'",
	"key >= 'k002' & key < 'k006'", "key > 'k003'", "key <= 'k004'",
	"value != 'x'", "true", "key = 'a' & key = 'b'", "false",
	// selective full scans: a Batch call reads on through several chunks with a few rows already matched
	"value = '2'", "int(value) > 4",
	"key ^= 'k' & int(value) > 2", "key in ('k001', 'k002') | key ^= 'k00'",
}

var c13Wraps = []string{
	"select * where %s", "select key, upper(value) as u where %s", "select * where %s order by value desc",
	"select key, int(value) as n where %s order by n, key desc limit 1, 3", "select * where %s limit 2", "select * where %s limit 4, 2",
	"select key + '_x', value + key, key + value where %s",
	"select count(1), sum(int(value)) where %s", "select value, count(1) as c where %s group by value",
	"select value, count(1) as c where %s group by value order by c desc limit 1, 2", "select value, max(key) where %s group by value limit 1, 1",
	// wave 15 (C13-aa): a statement that hands out no row still opens and positions its cursor - those calls can fail
	"select * where %s limit 0", "select key, value where %s order by value desc limit 0",
}

var c13Writes = []string{
	"put ('p1', 'v1')", "put ('p1', 'v1'), ('k001', 'new'), ('p2', upper(key))", "put ('k002', 'x'), ('k002', 'y')",
	"remove 'k001'", "remove 'k001', 'k003', 'nope'", "remove 'nope'",
}

var c13DelLimits = []string{"", " limit 2", " limit 1, 2", " limit 5, 3"}

func c13Fixed() []c13Case {
	var out []c13Case
	shapes := []struct{ n, b int }{{6, 2}, {9, 3}, {40, 32}}
	for _, sh := range shapes {
		for _, batch := range []bool{false, true} {
			for _, w := range c13Wheres {
				for _, wr := range c13Wraps {
					out = append(out, c13Case{fmt.Sprintf(wr, w), sh.n, sh.b, batch})
				}
				for _, l := range c13DelLimits {
					out = append(out, c13Case{"delete where " + w + l, sh.n, sh.b, batch})
				}
			}
			for _, w := range c13Writes {
				out = append(out, c13Case{w, sh.n, sh.b, batch})
			}
			// statements rejected at parse / plan time
			for _, w := range []string{"select * where key = 1", "select nope(key) where true", "put ('a', value)", "delete where key + 1", "select * where", "select key, sum(int(value)) where true", "remove key"} {
				out = append(out, c13Case{w, sh.n, sh.b, batch})
			}
		}
	}
	return out
}

var c13FixedList = c13Fixed()

func (c13) NumCases(tier string) int {
	if tier == "thorough" {
		return len(c13FixedList) + 6000
	}
	// quick: the two small store shapes of the fixed list + a few generated
	return len(c13FixedList)*2/3 + 300
}

func (c13) Exhaustive(string) bool { return true }

func (c13) Rule() string {
	return "every statement kind x access path (point reads, prefix, range, full, empty) x projection/order/limit/aggregate wrappers x put/remove/delete, over stores of 6, 9 and 40 pairs at batch sizes 2, 3 and 32, in row and batch mode, plus grammar-generated statements; for each, EVERY position of the fault-free storage-call sequence is failed once (exhaustive single-fault enumeration per statement/store/mode). A fault run is non-trivial when the fault fired; distinct by (statement, store size, mode, fault index)."
}

func (c13) Assumptions() []string {
	return []string{"single faults only: once a call failed the store keeps failing and counts further attempts", "the caller stops polling a SELECT at the first error, as a user of the API would; a failed write statement (put/remove/delete) is polled three more times and must stay stopped", "BuildPlan legitimately issues Cursor/Seek twice (Init runs twice); both count as fault positions"}
}

func (c13) Gates(tier string, m map[string]int64) []rt.Gate {
	var gs []rt.Gate
	for _, op := range []string{"Cursor", "Seek", "Next", "Get", "Put", "BatchPut", "Delete", "BatchDelete"} {
		for _, md := range []string{"row", "batch"} {
			gs = append(gs, rt.GateMin("failing call was "+op+" in "+md+" mode", m, "fail:"+op+":"+md, 1))
		}
	}
	gs = append(gs, rt.Gate{Name: "faults fired = faults planned", Observed: m["faults_fired"], Need: m["faults_planned"], OK: m["faults_fired"] == m["faults_planned"] && m["faults_planned"] > 0})
	gs = append(gs, rt.GateMin("rejected statements observed", m, "rejected_statements", 5))
	return gs
}

func c13Store(n int) []refstore.Pair {
	return gen.Dense(n, "k", func(i int) string { return fmt.Sprint((i * 3) % 7) })
}

func (k c13) Run(c *rt.Ctx) {
	var cs c13Case
	idx := c.Case
	fixedN := len(c13FixedList)
	if !c.Thorough() {
		fixedN = len(c13FixedList) * 2 / 3
	}
	if idx < fixedN {
		cs = c13FixedList[idx]
		k.enumerate(c, cs.q, c13Store(cs.n), drive.Mode{Batch: cs.batch, Size: cs.b, Cache: true})
		return
	}
	// generated statements over small generated stores
	r := c.R
	st := gen.NewStore(r, []string{gen.FTiny, gen.FNum, gen.FMixed, gen.FTies, gen.FRel}[r.Intn(5)])
	g := fullGenFor(c, st, r)
	stmt := g.Any(r.Range(1, 2))
	k.enumerate(c, stmt.Text(gen.Plain), st.Pairs, drive.Mode{Batch: r.Bool(), Size: []int{1, 2, 3, 5}[r.Intn(4)], Cache: true})
}

func (k c13) enumerate(c *rt.Ctx, q string, pairs []refstore.Pair, m drive.Mode) {
	rec := c.Rec
	md := "row"
	if m.Batch {
		md = "batch"
	}
	// fault-free run
	st := refstore.New(pairs)
	o := drive.Run(q, st, m)
	rec.Eval(1)
	log := st.Log()
	c.Logf("statement: %s  mode %s\nfault-free: %v\nlog: %v", q, m, outcomeBrief(o), refstore.FormatLog(log))
	if o.Status() == "panic" || o.Status() == "runaway" {
		rec.NotJudged("statement panics without any fault (C06)")
		return
	}
	isSelect := len(q) >= 6 && (q[:6] == "select" || q[:6] == "SELECT" || q[:5] == "where")
	detail := func(extra rt.D, l []refstore.Event, oo *drive.Outcome) func() rt.D {
		return func() rt.D {
			d := rt.D{"statement": q, "mode": m.String(), "store": storeBrief(pairs), "storage_log": trimLog(refstore.FormatLog(l)), "outcome": outcomeBrief(oo)}
			for kk, v := range extra {
				d[kk] = v
			}
			return d
		}
	}
	// (1) read-only-ness: no mutating call, and nothing written into memory the storage handed out
	if isSelect {
		rec.Inc("selects_checked_for_memory_damage")
		if dmg := st.ArenaDamage(); len(dmg) > 0 {
			if len(dmg) > 6 {
				dmg = dmg[:6]
			}
			c.Violation("select-modified-memory-owned-by-the-storage", rt.Shape(q), detail(rt.D{"damaged_buffers": dmg}, log, o))
			return
		}
	}
	if isSelect || o.PlanErr != nil {
		for _, e := range log {
			if e.Op.Mutating() {
				what := "select-issued-a-write"
				if o.PlanErr != nil {
					what = "rejected-statement-issued-a-write"
				}
				c.Violation(what, e.OpS+" / "+rt.Shape(q), detail(rt.D{"event": e.Seq}, log, o))
				return
			}
		}
	}
	if o.PlanErr != nil {
		rec.Inc("rejected_statements")
	}
	// (2) single-fault enumeration
	n := len(log)
	for i := 0; i < n; i++ {
		fs := refstore.New(pairs)
		fs.FailAt = i
		if (c.Case+i)%3 == 0 {
			// every third fault carries io.EOF in its chain ("connection closed"): still an error
			fs.FaultErr = refstore.ErrInjectedEOF
			rec.Inc("faults_with_eof_in_their_chain")
		}
		rec.Inc("faults_planned")
		fo := drive.Run(q, fs, m)
		rec.Eval(1)
		flog := fs.Log()
		if fs.Faulted {
			rec.Inc("faults_fired")
			rec.DistinctS(fmt.Sprintf("%s\x00%d\x00%s\x00%d", q, len(pairs), m.String(), i))
		} else {
			c.Violation("fault-position-not-reached", rt.Shape(q), detail(rt.D{"fault_index": i, "note": "the run with the fault armed issued fewer storage calls than the fault-free run: non-deterministic call sequence"}, flog, fo))
			return
		}
		op := log[i].OpS
		rec.Inc("fail:" + op + ":" + md)
		cluster := op + " / " + md + " / " + rt.Shape(q)
		if fo.Status() == "runaway" {
			c.Violation("storage-polled-without-end-after-failed-call", cluster, detail(rt.D{"fault_index": i, "failed_op": op, "calls_after_fault": fs.AfterFault}, flog, fo))
			return
		}
		if fo.Status() == "panic" {
			c.Violation("panic-after-storage-error", cluster, detail(rt.D{"fault_index": i, "failed_op": op}, flog, fo))
			return
		}
		if fs.AfterFault > 0 {
			c.Violation("storage-call-after-failed-call", cluster, detail(rt.D{"fault_index": i, "failed_op": op, "calls_after_fault": fs.AfterFault}, flog, fo))
			return
		}
		err := fo.Err()
		if err == nil {
			c.Violation("storage-error-swallowed", cluster, detail(rt.D{"fault_index": i, "failed_op": op, "rows_returned": len(fo.Rows)}, flog, fo))
			return
		}
		if !errors.Is(err, refstore.ErrInjected) {
			c.Violation("storage-error-replaced", cluster, detail(rt.D{"fault_index": i, "failed_op": op, "returned_error": err.Error()}, flog, fo))
			return
		}
		// a write statement that failed stays stopped: polling its plan again issues no storage
		// operation (C12: the writes are issued once however often the plan is polled)
		if !isSelect && fo.Plan != nil {
			calls, pan := c13Repoll(fo.Plan, m.Batch)
			rec.Inc("failed_write_plans_polled_again")
			if pan != "" {
				c.Violation("panic-after-storage-error", cluster+" / when polled again", detail(rt.D{"fault_index": i, "failed_op": op, "panic": pan}, fs.Log(), fo))
				return
			}
			if fs.AfterFault > 0 {
				c.Violation("storage-call-after-failed-call", cluster+" / when the failed plan is polled again", detail(rt.D{"fault_index": i, "failed_op": op, "calls_after_fault": fs.AfterFault, "polls": calls}, fs.Log(), fo))
				return
			}
		}
	}
	if c.Case%97 == 0 {
		rec.Sample(rt.D{"statement": q, "mode": m.String(), "store_size": len(pairs), "fault_positions": n, "fault_free_log": trimLog(refstore.FormatLog(log))})
	}
}

// c13Repoll polls a plan three more times (alternating the two entry points, starting with
// the mode the statement ran in); what it returns is not judged here, only what it does.
func c13Repoll(p kvql.FinalPlan, batch bool) (polls int, pan string) {
	defer func() {
		if r := recover(); r != nil {
			pan = fmt.Sprint(r)
		}
	}()
	ctx := kvql.NewExecuteCtx()
	for i := 0; i < 3; i++ {
		if batch == (i%2 == 0) {
			p.Batch(ctx)
		} else {
			p.Next(ctx)
		}
		polls++
	}
	return polls, ""
}
