package checks

import (
	"sort"
	"strconv"
	"strings"

	"kvqlverif/gen"
	"kvqlverif/refstore"
	"kvqlverif/rt"
)

func sortStrings(s []string) { sort.Strings(s) }

func strconvUnquote(s string) (string, error) { return strconv.Unquote(s) }

func firstWords(s string) string {
	if len(s) > 60 {
		s = s[:60]
	}
	return s
}

func pairsKey(ps []refstore.Pair) string {
	var b strings.Builder
	for _, p := range ps {
		b.WriteString(p.K)
		b.WriteByte(0)
		b.WriteString(p.V)
		b.WriteByte(1)
	}
	return b.String()
}

func trimLog(l []string) []string {
	if len(l) > 40 {
		return append(append([]string{}, l[:40]...), "...")
	}
	return l
}

func pairsFromAny(v any) []refstore.Pair {
	var out []refstore.Pair
	arr, _ := v.([]any)
	for _, e := range arr {
		kv, _ := e.([]any)
		if len(kv) == 2 {
			k, _ := kv[0].(string)
			val, _ := kv[1].(string)
			out = append(out, refstore.Pair{K: k, V: val})
		}
	}
	return out
}

func rowsFromAny(v any) [][]string {
	var out [][]string
	arr, _ := v.([]any)
	for _, e := range arr {
		cols, _ := e.([]any)
		row := make([]string, len(cols))
		for i, c := range cols {
			row[i], _ = c.(string)
		}
		out = append(out, row)
	}
	return out
}

func sortInts(s []int) { sort.Ints(s) }

// highByteCase: composite keys "<table>\xff<id>" - a store and a predicate whose prefix (or
// range bound) literal ends in the highest byte value, which has no successor ("prefix + 1"
// has to carry); nil pred = the caller's own generator.
func highByteCase(r *rt.Rand) ([]refstore.Pair, *gen.Node) {
	var ps []refstore.Pair
	vals := []string{"1", "2", "x", "q", "10"}
	for _, k := range []string{"k", "t1", "t1\xfe", "t1\xff", "t1\xff1", "t1\xff2", "t1\xff\xff", "t1\xffz", "t10", "t2\xffa", "t2\xffb", "\xff", "\xff\xff1", "\xffz", "z"} {
		if r.Chance(4, 5) {
			ps = append(ps, refstore.Pair{K: k, V: vals[r.Intn(len(vals))]})
		}
	}
	K := gen.Key
	lit := []string{"t1\xff", "t1\xff", "\xff", "t2\xff", "t1\xff\xff", "\xff\xff"}[r.Intn(6)]
	var pred *gen.Node
	switch r.Intn(5) {
	case 0:
		pred = gen.Bin("^=", K(), gen.Str(lit))
	case 1:
		pred = gen.And(gen.Bin("^=", K(), gen.Str(lit)), gen.Bin("!=", gen.Value(), gen.Str("q")))
	case 2:
		pred = gen.Or(gen.Bin("^=", K(), gen.Str(lit)), gen.Bin("=", K(), gen.Str("k")))
	case 3:
		pred = gen.And(gen.Bin("^=", K(), gen.Str(lit)), gen.Bin(">=", K(), gen.Str(lit+"1")))
	default:
		pred = gen.Bin(">=", K(), gen.Str(lit))
	}
	return refstore.New(ps).Pairs(), pred
}
