#!/usr/bin/env python3
"""Regenerates /verif/known_findings.json: fixed entries (from the table below) and known entries."""
import json
FIXED = [
 # (properties, commit, what failed, witness statement)
 (["C16"], "12e5382", "lexer: a word directly before an opening quote was dropped (a'b') and a word directly after a closing quote was cut from the string's offset ('a'and -> word a'a)", "a'b'  /  'a'and"),
 (["C14", "C01"], "aaa4cfe", "= / != on float operands (float(value) = 1.5) passed the checker and failed at run time", "select * where float(value) = 1.5"),
 (["C14"], "ce13833", "'!a and b' rejected although '!a & b' is accepted (keyword and/or checked by the comparison rule without NotExpr)", "select * where !(key = 'a') and value = 'b'"),
 (["C04", "C01"], "2d619e8", "constant folding re-wrapped integer-op-float results as an integer literal (3 * 0.5 -> 1)", "select * where float(value) > 3 * 0.5"),
 (["C02", "C01", "C11"], "31af2c4", "literal-on-the-left comparisons ('b' > key, 'abc' ^= key) planned as if the key were on the left: satisfying rows never read", "select * where 'b' > key"),
 (["C02", "C01", "C11"], "92cf8d7", "unionRange/intersectionRange with an open side: gap instead of cover (key > 'b' | key < 'ab' -> Range[b,ab]); Range[nil,nil] kept and narrowed later; nil boundary equal to empty start key", "select * where key > 'b' | key < 'ab'"),
 (["C01", "C02"], "66494d8", "key in ('a','a') returned (and removed) the pair twice", "select * where key in ('a', 'a')"),
 (["C08", "C03", "C11"], "c03da6b", "batch-mode LIMIT offset: a completely skipped child batch was returned (limit 32,3 -> rows 0-2; delete ... limit deleted the wrong pairs) in FinalLimitPlan, LimitPlan and AggregatePlan", "select * where key ^= 'k' limit 32, 3  (batch size 32)"),
 (["C03", "C10"], "8c1f900", "row-at-a-time knew only []any lists: x in split(..), x in alias, list(1,2,3)[1], list-valued select field failed with Next() only", "select key, split(value, ',') as f1 where 'a' in f1"),
 (["C05", "C03", "C09"], "8cc4cad", "per-row alias cache not cleared between scanned pairs (row mode alias filter returned nothing; aggregate arguments through an alias saw the first pair; join()/list() in batch mode saw row 0's alias value)", "select key, int(value) as n where n > 2"),
 (["C05", "C03"], "e0c689a", "chunk cache keyed by (alias, first key) reused for the filtered chunk when the first scanned pair passes the filter: alias values shifted by the rejected pairs", "select float(value) as b, strlen(key) - b where key ^= 'x' | b in (0)"),
 (["C05", "C03", "C06"], "e19d990", "MultiGetPlan.Batch never advanced bidx: alias cache compacted to one value -> index out of range panic / wrong values for alias filters over point reads", "select key, int(value) as n where key in ('a','b') & n > 1  (batch mode)"),
 (["C02"], "be91290", "empty prefix intersected with a range open at its end planned as MultiGet{''}", "select * where key ^= '' & key >= 'a'"),
 (["C18"], "d06fdd0", "disjoint prefixes/ranges/keys not recognised when another condition stands between them in an AND chain: region scanned instead of no read", "select * where (key ^= 'ba') & ((key >= 'abc') & (key ^= 'ab'))"),
 (["C18"], "da48cdb", "finished prefix/range/full scan read one more key beyond its region on every further Batch call", "select * where key ^= 'a'  (batch mode, final empty Batch call)"),
 (["C14", "C05"], "6d03155", "checker did not descend into ! operands, IN lists, BETWEEN bounds and index bases: !(key ^= 1), key in ('a'+1,'b') accepted; alias below ! never resolved", "select * where !(key ^= 1)"),
 (["C06"], "f030517", "substr(key, 2, 1) on a 3-byte key (clamped end before start, or negative start) panicked with slice bounds out of range in row form, vector form and constant folding", "select substr(key, 2, 1) where true"),
 (["C05", "C07"], "779436d", "a select field starting with an alias was typed before the alias was resolved (a + key typed as number): ORDER BY compared its text values as numbers, unlike the alias-expanded query", "select key, '47' as a, a + key as b where true order by b desc"),
 (["C10"], "b916071", "len(split(value, ',')) refused with 'invalid type' (getListLength knew numeric slices only)", "select len(split(value, ',')) where true"),
 (["C06", "C07"], "b92958b", "ORDER BY comparator asserted the right value to the Go type of the left one: panic for []byte vs string text, integer vs float sums, JSON members of varying type", "select key, json(value)['x'] as j where true order by j"),
 (["C06", "C03"], "3e7cc07", "variadic functions with too few arguments (join(), list()) panicked in batch mode (no minimum-arity check in the vector path)", "select join() where true  (batch mode)"),
 (["C06"], "39ebef9", "a select field defined through its own name (select upper(u) as u ...) built a cyclic expression: fatal stack overflow that recover() cannot stop", "select upper(u) as u where key = 'a'"),
 (["C17", "C06"], "86fb009", "error rendering applied offsets of the original query to the trimmed query: leading blanks shifted the caret, many blanks / long queries panicked with slice bounds out of range", "'   select * where val = 1' rendered after BindQuery"),
 (["C09"], "39d160b", "GROUP BY key was the concatenation of rendered values: ('a','bc') and ('ab','c') merged into one group", "select split(key,'|')[0] as g0, split(key,'|')[1] as g1, count(1) where true group by g0, g1"),
 (["C14"], "5a16734", "unknown functions and wrong argument counts were found only at execution, after Cursor/Seek (or not at all on an empty store)", "select nosuch(value) where key ^= 'k'"),
 (["C06"], "f27f612", "quantile(x, 0 - 25): a negative percentile passed the range check and panicked (index out of range) when the aggregate completed", "select quantile(int(value), 0 - 25) where true"),
 (["C14", "C05"], "0a5c3c1", "select fields were type-checked after the where clause: a where expression that names a field defined through another field was checked against a field type computed before that inner alias was resolved (valid statement refused / invalid accepted)", "select int(value) as a, a + 1 as b where b > 1"),
 (["C05"], "8abcf29", "with the field cache on, a second select field carrying an already used name was filled with the cached value of the first field of that name", "select key as a, value as a where a != 'x'"),
 (["C09"], "ae03c6f", "min()/max() compared a float with an integer extreme (or an integer with a float extreme) by its truncated value: max over 2, 2.5 returned 2", "select max(value) where true  (values '2', '2.5')"),
 (["C02"], "b0f088a", "a key BETWEEN with reversed bounds was merged as a range with the other operands: 'key = 'm' or key between 'z' and 'a'' was planned as RANGE[m,a] and lost the pair m, on which the clause is true without the BETWEEN ever being evaluated", "select key where key = 'm' or key between 'z' and 'a'  (store {m})"),
 (["C05"], "29ac3fe", "the chunk cache key of a named select field was name + '-' + first key of the chunk: the field `v-` over a chunk starting at key 00 and the field v over a chunk starting at key -00 shared one entry, so a well-typed statement failed (or showed the other field's values) in batch mode with the cache on", "select key, strlen(key) as `v-`, lower(value) as v where (`v-` >= 0) & (v = 'b')  (keys -00 -01 -02 -03 00 01, batch size 2)"),
 (["C06"], "5f94ff5", "quantile() accepted a NaN percentile (the words nan, inf and infinity are FLOAT literals because strconv.ParseFloat accepts them; NaN is neither > 1 nor < 0) and the statement panicked with an index out of range when the aggregate was completed", "select quantile(value, nan) where true"),
 (["C09"], "eaee8dc", "the group key of a float GROUP BY value was its text with six decimals: 0.1 and 0.1000001 shared a group (counted and summed together), -0.0 and 0.0 did not", "select float(value) as f, count(1) where true group by f  (values '0.1', '0.1000001')"),
 (["C14"], "ad2d8a6", "an aggregate statement with as many select fields as GROUP BY fields, one of the latter not selected, was refused with 'No aggregate fields in select statement'", "select count(1) where key != 'zz' group by value"),
 (["C14"], "25e1a67", "DELETE did not check that its WHERE is Boolean: the statement was accepted and failed on the first pair, after the scan had started", "delete where 1 + 1"),
 (["C14"], "e0209b4", "operand types the executor refuses passed the checker: the keywords and/or with non-Boolean operands of equal type, IN with a Boolean left operand, = and != between lists or JSON documents; all failed with an operand type error after storage access", "select * where 1 and 2;  select * where (key = 'a') in (true, false);  select * where split(key, 'a') = split(key, 'b')"),
 (["C14"], "e77b8a8", "an aggregate function in a filter or in a PUT/REMOVE/DELETE expression (also through the name of an aggregate select field) passed the function-call check and failed with 'Cannot find function count' on the first pair", "select * where count(1) > 0;  put ('k1', count(1))"),
 (["C16"], "c92a152", "one of * + - / directly followed by = produced no token (key*='x' lexed as key = 'x' while key * = 'x' is refused), and a ~ or ^ not followed by = produced no token either: spacing changed the token sequence and characters of the statement were silently dropped", "a*=b  ->  [a] [=] [b]"),
 (["C03", "C05"], "2deac9e", "list() in batch mode chose between an integer and a float list once per chunk, from the first pair (through a scalar evaluation that could also read a stale field-cache entry): list(value, 2) over values 1 and 2.5 returned [2 2] for the second pair in batch mode and [2.5 2] in row mode", "select key, list(value, 2) where key ^= 'k'  (values '1', '2.5'; batch size >= 2)"),
 (["C02"], "4ef697a", "an upper bound at the empty literal was planned as an empty result also for the non-strict comparison: with a pair stored under the empty key, key <= '' (and '' >= key) lost it, while key = '' and the pair-by-pair filter select it", "select * where key <= ''  (store with a pair under the empty key)"),
 (["C15"], "d377034", "a folded float constant was written with %v: the float 3.0 became the literal text 3 in the filter EXPLAIN shows, which parsed again is an integer (integer instead of float division), and 1e21 became 1e+21, which the lexer splits at the sign: the shown filter was not the executed filter", "select key, value where int(value) / (1.5 + 1.5) <= 2.5  (shown: ((int(VALUE) / 3) <= 2.5); values 8, 9 pass the shown filter only)"),
 (["C06"], "9917b0d", "the function-call check added by 5a16734 followed every by-name reference into the referenced field, so a chain of fields each naming the previous one twice cost 2^n visits at plan time: 26 levels took seconds, 40 levels (650 bytes of text) did not finish", "select strlen(key) as a0, a0+a0 as a1, a1+a1 as a2, ... , a39+a39 as a40 where key ^= 'k'"),
]
KNOWN = []
def main():
    out = {"findings": []}
    for props, commit, what, wit in FIXED:
        for p in props:
            out["findings"].append({"status": "fixed", "property": p, "commit": commit, "what": what,
                                    "line": "fixed: property=%s %s %s" % (p, commit, what), "witness": {"statement": wit}})
    for k in KNOWN:
        out["findings"].append(k)
    json.dump(out, open("/verif/known_findings.json", "w"), indent=1)
    print(len(out["findings"]), "entries")
main()
