package checks

import (
	"sort"
	"strconv"
	"strings"

	"kvqlverif/refstore"
)

func sortStrings(s []string) { sort.Strings(s) }

func strconvUnquote(s string) (string, error) { return strconv.Unquote(s) }

func firstWords(s string) string {
	if len(s) > 60 {
		s = s[:60]
	}
	return s
}

func pairsKey(ps []refstore.Pair) string {
	var b strings.Builder
	for _, p := range ps {
		b.WriteString(p.K)
		b.WriteByte(0)
		b.WriteString(p.V)
		b.WriteByte(1)
	}
	return b.String()
}

func trimLog(l []string) []string {
	if len(l) > 40 {
		return append(append([]string{}, l[:40]...), "...")
	}
	return l
}

func pairsFromAny(v any) []refstore.Pair {
	var out []refstore.Pair
	arr, _ := v.([]any)
	for _, e := range arr {
		kv, _ := e.([]any)
		if len(kv) == 2 {
			k, _ := kv[0].(string)
			val, _ := kv[1].(string)
			out = append(out, refstore.Pair{K: k, V: val})
		}
	}
	return out
}

func rowsFromAny(v any) [][]string {
	var out [][]string
	arr, _ := v.([]any)
	for _, e := range arr {
		cols, _ := e.([]any)
		row := make([]string, len(cols))
		for i, c := range cols {
			row[i], _ = c.(string)
		}
		out = append(out, row)
	}
	return out
}

func sortInts(s []int) { sort.Ints(s) }
