package checks

import (
	"fmt"
	"regexp"
	"sort"
	"strings"

	"kvqlverif/drive"
	"kvqlverif/gen"
	"kvqlverif/refeval"
	"kvqlverif/refstore"
	"kvqlverif/rt"
)

// C03 — row-at-a-time and batch iteration agree at any batch size.
// Pure differential: Next-drain vs Batch-drain of the same statement text over
// equal stores, columns compared by content.

type c03 struct{ rt.Base }

var aliasRe = regexp.MustCompile(`\b(f1|n1|s2|b3|l4|kp|vv|zz9|a_b|x)[0-9]\b`)

func init() { rt.Register(&c03{}) }

func (c03) ID() string { return "C03" }

func (c03) NumCases(tier string) int {
	if tier == "thorough" {
		return 300000
	}
	return 15000
}

func (c03) Rule() string {
	return "statements of the full language (every scalar/aggregate function, aliases, ORDER BY, GROUP BY, LIMIT, PUT/REMOVE/DELETE) over 9 store families (incl. one whose values are all JSON documents with nested objects and arrays of objects, and one of key/value tuples built to collide when joined with a separator) of 0..4 batches; each drained row-at-a-time and in batches at 3 batch sizes from {1,2,3,5,32}(+); rows compared by content (tie runs under ORDER BY as multisets), write statements by post-state. Non-trivial: batch mode completed without error and returned at least one row (or changed the store); distinct by (statement text, store) hash."
}

func (c03) Assumptions() []string {
	return []string{"one-directional by the property: if batch iteration fails nothing is required of row iteration", "with ORDER BY and LIMIT together only the sort-key sequence and the row count are compared (a tie run cut by the limit may legitimately differ)"}
}

var c03ScalarFns = []string{"lower", "upper", "int", "float", "str", "is_int", "is_float", "substr", "json", "split", "list", "float_list", "int_list", "flist", "ilist", "len", "join", "strlen", "cosine_distance", "l2_distance"}
var c03AggrFns = []string{"count", "sum", "avg", "min", "max", "quantile", "json_arrayagg", "group_concat"}

func (c03) Gates(tier string, m map[string]int64) []rt.Gate {
	var gs []rt.Gate
	for _, f := range append(append([]string{}, c03ScalarFns...), c03AggrFns...) {
		if f == "substr" || f == "len" {
			continue // exercised when not avoided; counted but not gated
		}
		gs = append(gs, rt.GateMin("function "+f+" completed in both modes", m, "fn:"+f, 1))
	}
	for _, p := range []string{"ProjectionPlan", "AggregatePlan", "OrderPlan", "LimitPlan", "PutPlan", "RemovePlan", "DeletePlan", "MultiGetPlan", "PrefixScanPlan", "RangeScanPlan", "FullScanPlan", "EmptyResultPlan"} {
		gs = append(gs, rt.GateMin("plan node "+p+" exercised", m, "plan:"+p, 1))
	}
	gs = append(gs, rt.GateMin("result smaller than batch", m, "rel:lt", 1), rt.GateMin("result equal to batch", m, "rel:eq", 1), rt.GateMin("result larger than batch", m, "rel:gt", 1),
		rt.GateMin("comparisons made", m, "compared", 1000))
	return gs
}

var c03Families = []string{gen.FTiny, gen.FNum, gen.FNum, gen.FFloat, gen.FMixed, gen.FMixed, gen.FBinary, gen.FWide, gen.FWide, gen.FTies, gen.FRel, gen.FRel, gen.FJSON, gen.FSep}

func fullGenFor(c *rt.Ctx, st *gen.Store, r *rt.Rand) *gen.FullGen {
	g := &gen.FullGen{R: r, KeyLits: st.KeyLiterals(r), Avoid: c.Avoid, Family: st.Family}
	vals := map[string]bool{}
	for _, p := range st.Pairs {
		if gen.Printable(p.V) && len(p.V) < 12 {
			vals[p.V] = true
		}
	}
	for v := range vals {
		g.ValLits = append(g.ValLits, v)
	}
	g.ValLits = append(g.ValLits, "a", "1", "")
	sort.Strings(g.ValLits)
	g.NoSubstr = c.Avoid["substr"]
	return g
}

func (k c03) Run(c *rt.Ctx) {
	r := c.R
	st := gen.NewStore(r, c03Families[r.Intn(len(c03Families))])
	g := fullGenFor(c, st, r)
	g.RawListHead = true
	if r.Chance(1, 3) {
		g.RefBias = 3
	}
	stmt := g.Any(r.Range(1, 3))
	if st.Family == gen.FSep && r.Chance(2, 3) {
		// grouping by several raw fields over tuples built to collide when joined
		k0, v0 := gen.Key(), gen.Value()
		flds := [][]gen.Field{
			{{E: k0, Alias: "gk"}, {E: v0, Alias: "gv"}},
			{{E: v0, Alias: "gv"}, {E: k0, Alias: "gk"}},
			{{E: gen.Call("upper", k0), Alias: "gk"}, {E: v0, Alias: "gv"}},
			{{E: k0, Alias: "gk"}, {E: gen.Call("lower", v0), Alias: "gv"}, {E: gen.Call("strlen", k0), Alias: "gn"}},
		}[r.Intn(4)]
		stmt = &gen.Stmt{Kind: "select", Where: gen.Bin("!=", gen.Key(), gen.Str("zz"))}
		for _, f := range flds {
			stmt.Fields = append(stmt.Fields, f)
			stmt.GroupBy = append(stmt.GroupBy, f.Alias)
		}
		agg := []*gen.Node{gen.Call("count", gen.Int(1)), gen.Call("group_concat", gen.Key(), gen.Str("+")), gen.Call("max", gen.Call("strlen", gen.Value()))}[r.Intn(3)]
		stmt.Fields = append(stmt.Fields, gen.Field{E: agg, Alias: "ag"})
		if r.Chance(1, 3) {
			stmt.HasLim, stmt.Start, stmt.Count = true, r.Intn(2), r.Range(1, 4)
		}
	}
	style := gen.Style{Paren: []int{0, 0, 1, 3}[r.Intn(4)], R: r.Fork(), Case: r.Chance(1, 4)}
	query := stmt.Text(style)
	sizes := []int{pickBatch(c), pickBatch(c), pickBatch(c)}
	if c.Case%24 == 5 {
		// text of several bytes per character: lengths, case mapping, splitting and slicing give
		// the same answer per pair and per chunk
		c.Rec.Inc("multibyte_text")
		vals := []string{"\u00e9", "a\u00e9", "na\u00efve", "\u65e5\u672c\u8a9e", "\u20acuro", "\u00df", "x", "", "abc", "\u043a\u043b\u044e\u0447", "\u00e9\u00e9\u00e9\u00e9", "e\u0301"}
		var ps []refstore.Pair
		for i, n := 0, r.Range(3, 40); i < n; i++ {
			ps = append(ps, refstore.Pair{K: fmt.Sprintf("\u043a%02d%s", i, []string{"", "\u00e9", "\u65e5"}[r.Intn(3)]), V: vals[r.Intn(len(vals))]})
		}
		st = &gen.Store{Family: "multibyte", Pairs: refstore.New(ps).Pairs()}
		k0, v0 := gen.Key(), gen.Value()
		pre := gen.Bin("^=", k0, gen.Str("\u043a"))
		switch r.Intn(5) {
		case 0:
			stmt = &gen.Stmt{Kind: "select", Where: pre, Fields: []gen.Field{{E: k0}, {E: gen.Call("strlen", v0), Alias: "n"}, {E: gen.Call("strlen", k0), Alias: "kn"}}}
		case 1:
			stmt = &gen.Stmt{Kind: "select", Where: gen.And(pre, gen.Bin([]string{">", ">=", "=", "<"}[r.Intn(4)], gen.Call("strlen", v0), gen.Int(int64(r.Range(1, 8))))), Fields: []gen.Field{{E: k0}, {E: v0}}}
		case 2:
			stmt = &gen.Stmt{Kind: "select", Where: pre, Fields: []gen.Field{{E: gen.Call("strlen", v0), Alias: "n"}, {E: gen.Call("count", gen.Int(1)), Alias: "c"}}, GroupBy: []string{"n"}}
		case 3:
			stmt = &gen.Stmt{Kind: "select", Where: pre, Fields: []gen.Field{{E: k0}, {E: gen.Call("upper", v0), Alias: "u"}, {E: gen.Call("lower", k0), Alias: "l"}, {E: gen.Call("strlen", gen.Call("upper", v0)), Alias: "n"}}, OrderBy: []gen.OrderItem{{Name: "n", Desc: r.Bool()}, {Name: "l"}}}
		default:
			stmt = &gen.Stmt{Kind: "select", Where: pre, Fields: []gen.Field{{E: k0}, {E: gen.Call("strlen", gen.Bin("+", v0, k0)), Alias: "n"}, {E: gen.Call("len", gen.Call("split", v0, gen.Str("\u00e9"))), Alias: "parts"}, {E: gen.Call("sum", gen.Call("strlen", v0)), Alias: "s"}}}
			stmt.Fields = stmt.Fields[:3]
		}
		if r.Chance(1, 3) && len(stmt.GroupBy) == 0 {
			stmt.HasLim, stmt.Start, stmt.Count = true, r.Intn(3), r.Range(1, 9)
		}
		query = stmt.Text(gen.Plain)
	} else if c.Case%24 == 19 {
		// two fields under one name, the name used elsewhere: every column shows its own expression
		c.Rec.Inc("duplicate_names_used_elsewhere")
		var ps []refstore.Pair
		for i, n := 0, r.Range(3, 40); i < n; i++ {
			ps = append(ps, refstore.Pair{K: fmt.Sprintf("k%02d", i), V: fmt.Sprintf("v%d", (i*7)%11)})
		}
		st = &gen.Store{Family: "dupnames", Pairs: refstore.New(ps).Pairs()}
		query = []string{
			"select key as a, upper(a) as b, value as a where key ^= 'k'",
			"select key as a, value as a where a ^= 'k0'",
			"select value as a, a + '!' as b, key as a, strlen(value) as a where key ^= 'k' & a != 'v3'",
			"select strlen(key) as n, n + 1 as m, strlen(value) as n where value != 'v0'",
			"select key as a, value as a, lower(a) as c where a != 'k01' order by c desc",
		}[r.Intn(5)]
		stmt = &gen.Stmt{Kind: "select", Where: gen.Bin("^=", gen.Key(), gen.Str("k")), Fields: []gen.Field{{E: gen.Key()}}}
	} else if c.Case%24 == 17 {
		// BETWEEN bounds that coincide, as constants or on some pairs only: a run-time error in
		// both modes or in neither
		c.Rec.Inc("between_with_coinciding_bounds")
		var ps []refstore.Pair
		for i, n := 0, r.Range(3, 40); i < n; i++ {
			ps = append(ps, refstore.Pair{K: fmt.Sprintf("k%02d", i), V: fmt.Sprint(r.Range(1, 5))})
		}
		st = &gen.Store{Family: "bounds", Pairs: refstore.New(ps).Pairs()}
		iv := func() *gen.Node { return gen.Call("int", gen.Value()) }
		b := int64(r.Range(1, 5))
		var bt *gen.Node
		switch r.Intn(4) {
		case 0:
			bt = gen.Between(iv(), gen.Int(b), gen.Int(b))
		case 1:
			bt = gen.Between(gen.Value(), gen.Str(fmt.Sprint(b)), gen.Str(fmt.Sprint(b)))
		case 2:
			bt = gen.Between(iv(), iv(), gen.Int(b))
		default:
			bt = gen.Between(iv(), gen.Int(b), gen.Bin("+", iv(), gen.Int(1)))
		}
		stmt = &gen.Stmt{Kind: "select", Where: gen.And(gen.Bin("^=", gen.Key(), gen.Str("k")), bt), Fields: []gen.Field{{E: gen.Key()}, {E: gen.Value()}}}
		if r.Chance(1, 3) {
			stmt.Where = bt
		}
		query = stmt.Text(gen.Plain)
	} else if c.Case%24 == 11 {
		// documents between values that are no documents: a member read belongs to its own pair
		c.Rec.Inc("json_members_between_non_documents")
		docs := []string{`{"a":"x1","n":{"b":"y1"},"l":[1,2]}`, "plain", `{"a":"x3","n":{"b":"y3"}}`, "", `{"b":"only"}`, "7", `{"a":"x5","n":{"b":"y5"},"l":[3]}`, "[1,2]", `{"a":"","n":{}}`, "null", `{"a":"x1"}`}
		var ps []refstore.Pair
		for i, n := 0, r.Range(4, 40); i < n; i++ {
			ps = append(ps, refstore.Pair{K: fmt.Sprintf("k%02d", i), V: docs[r.Intn(len(docs))]})
		}
		st = &gen.Store{Family: "docsmixed", Pairs: refstore.New(ps).Pairs()}
		k0, v0 := gen.Key(), gen.Value()
		pre := gen.Bin("^=", k0, gen.Str("k"))
		doc := func() *gen.Node { return gen.Call("json", v0) }
		a := func() *gen.Node { return gen.IndexS(doc(), "a") }
		switch r.Intn(4) {
		case 0:
			stmt = &gen.Stmt{Kind: "select", Where: pre, Fields: []gen.Field{{E: k0}, {E: a(), Alias: "a"}}}
		case 1:
			stmt = &gen.Stmt{Kind: "select", Where: gen.And(pre, gen.Bin([]string{"=", "!="}[r.Intn(2)], a(), gen.Str([]string{"", "x1", "x3"}[r.Intn(3)]))), Fields: []gen.Field{{E: k0}, {E: v0}}}
		case 2:
			stmt = &gen.Stmt{Kind: "select", Where: pre, Fields: []gen.Field{{E: a(), Alias: "a"}, {E: gen.Call("count", gen.Int(1)), Alias: "c"}}, GroupBy: []string{"a"}}
		default:
			stmt = &gen.Stmt{Kind: "select", Where: pre, Fields: []gen.Field{{E: k0}, {E: gen.IndexS(doc(), "b"), Alias: "b"}, {E: gen.Call("strlen", a()), Alias: "n"}}}
		}
		if r.Chance(1, 3) && len(stmt.GroupBy) == 0 {
			stmt.HasLim, stmt.Start, stmt.Count = true, r.Intn(3), r.Range(1, 9)
		}
		query = stmt.Text(gen.Plain)
	} else if c.Case%24 == 13 {
		// wave 15 (C03-ab): float values with a fraction compared with an INTEGER literal - the
		// comparison is made in floating point in both modes (1.5 > 1)
		c.Rec.Inc("fractional_floats_against_integer_literals")
		vals := []string{"0.5", "1.5", "1.0", "2.25", "3", "-0.5", "1.75", "2.5", "0.25", "-1.5", "2", "1"}
		var ps []refstore.Pair
		for i, n := 0, r.Range(4, 40); i < n; i++ {
			ps = append(ps, refstore.Pair{K: fmt.Sprintf("k%02d", i), V: vals[r.Intn(len(vals))]})
		}
		st = &gen.Store{Family: "fractions", Pairs: refstore.New(ps).Pairs()}
		k0, v0 := gen.Key(), gen.Value()
		op := []string{">", ">=", "<", "<="}[(c.Case/24)%4]
		lit := gen.Int(int64((c.Case/96)%3) + 1)
		fdef := gen.Call("float", v0)
		if (c.Case/288)%2 == 0 {
			stmt = &gen.Stmt{Kind: "select", Where: gen.Bin(op, gen.Ref("f", fdef), lit), Fields: []gen.Field{{E: k0}, {E: fdef, Alias: "f"}}}
		} else {
			stmt = &gen.Stmt{Kind: "select", Where: gen.Bin("^=", k0, gen.Str("k")), Fields: []gen.Field{{E: k0}, {E: gen.Bin(op, gen.Bin("/", gen.Call("float", v0), gen.Float("2.0")), lit), Alias: "b"}, {E: gen.Bin(op, fdef, lit), Alias: "small"}}}
		}
		query = stmt.Text(gen.Plain)
	} else if c.Case%24 == 23 {
		// wave 15 (C03-aa): a GROUP BY field used by name beside the aggregate call, with groups whose
		// named value differs and several groups per batch - each group's row is computed from that
		// group's own value in both modes
		c.Rec.Inc("group_name_beside_the_aggregate")
		var ps []refstore.Pair
		for i, n := 0, r.Range(4, 40); i < n; i++ {
			pre := []string{"a", "bb", "ccc", "dddd", "e", "ff"}[r.Intn(6)]
			ps = append(ps, refstore.Pair{K: fmt.Sprintf("%s%02d", pre, i), V: fmt.Sprint(r.Range(1, 30))})
		}
		st = &gen.Store{Family: "groupnames", Pairs: refstore.New(ps).Pairs()}
		k0, v0 := gen.Key(), gen.Value()
		gdef := gen.Call("substr", k0, gen.Int(0), gen.Bin("-", gen.Call("strlen", k0), gen.Int(2)))
		gr := func() *gen.Node { return gen.Ref("g", gdef) }
		agg := []*gen.Node{
			gen.Bin("+", gen.Call("sum", gen.Call("int", v0)), gen.Call("strlen", gr())),
			gen.Bin("*", gen.Call("strlen", gr()), gen.Call("count", gen.Int(1))),
			gen.Bin("+", gen.Call("max", gen.Call("int", v0)), gen.Bin("*", gen.Call("strlen", gr()), gen.Int(100))),
		}[(c.Case/24)%3]
		stmt = &gen.Stmt{Kind: "select", Where: gen.Bin(">", k0, gen.Str("")), Fields: []gen.Field{{E: gdef, Alias: "g"}, {E: agg, Alias: "s"}}, GroupBy: []string{"g"}}
		if (c.Case/72)%2 == 1 {
			stmt.Fields = append(stmt.Fields, gen.Field{E: gen.Call("upper", gr()), Alias: "u"})
		}
		query = stmt.Text(gen.Plain)
	} else if r.Chance(1, 14) {
		// float group values that agree in six decimals, or are the two zeros: both modes form
		// the same groups
		c.Rec.Inc("close_float_groups")
		vals := []string{"0.1", "0.1000001", "0.10000004", "0", "-0", "-0.0", "2.5", "2.5000001", "7"}
		var ps []refstore.Pair
		for i, n := 0, r.Range(5, 40); i < n; i++ {
			ps = append(ps, refstore.Pair{K: fmt.Sprintf("g%02d", i), V: vals[r.Intn(len(vals))]})
		}
		st = &gen.Store{Family: "closefloats", Pairs: refstore.New(ps).Pairs()}
		f := gen.Call("float", gen.Value())
		stmt = &gen.Stmt{Kind: "select", Where: gen.Bin("^=", gen.Key(), gen.Str("g")), Fields: []gen.Field{{E: f, Alias: "f"}, {E: gen.Call("count", gen.Int(1)), Alias: "c"}}, GroupBy: []string{"f"}}
		if r.Bool() {
			stmt.Fields = append(stmt.Fields, gen.Field{E: gen.Call("sum", gen.Call("strlen", gen.Key())), Alias: "s"})
		}
		if r.Chance(1, 3) {
			stmt.OrderBy = []gen.OrderItem{{Name: "c", Desc: r.Bool()}, {Name: "f"}}
		}
		query = stmt.Text(gen.Plain)
	} else if r.Chance(1, 14) {
		// membership in a list made per pair: a match followed by a non-match inside one chunk
		c.Rec.Inc("in_over_function_lists")
		var ps []refstore.Pair
		tags := []string{"red,blue", "green", "blue", "red", "blue,green,red", "x", "green,blue"}
		for i, n := 0, r.Range(6, 30); i < n; i++ {
			ps = append(ps, refstore.Pair{K: fmt.Sprintf("t%02d", i), V: tags[r.Intn(len(tags))]})
		}
		st = &gen.Store{Family: "tags", Pairs: refstore.New(ps).Pairs()}
		lst := gen.Call("split", gen.Value(), gen.Str(","))
		var w *gen.Node
		switch r.Intn(3) {
		case 0:
			w = gen.InExpr(gen.Str([]string{"blue", "red", "green"}[r.Intn(3)]), lst)
		case 1:
			w = gen.InExpr(gen.Call("strlen", gen.Value()), gen.Call("list", gen.Int(3), gen.Int(4), gen.Int(8)))
		default:
			w = gen.And(gen.Bin("^=", gen.Key(), gen.Str("t")), gen.InExpr(gen.Str("blue"), gen.Ref("tags", lst)))
		}
		stmt = &gen.Stmt{Kind: "select", Where: w, Fields: []gen.Field{{E: gen.Key()}, {E: lst, Alias: "tags"}}}
		query = stmt.Text(gen.Plain)
	} else if r.Chance(1, 16) {
		// several fields derived from one named numeric field: each has its own values (a vector
		// handed out twice and computed in place would show the last computation in all of them)
		c.Rec.Inc("fields_derived_from_one_name")
		var ps []refstore.Pair
		for i, n := 0, r.Range(3, 40); i < n; i++ {
			ps = append(ps, refstore.Pair{K: fmt.Sprintf("k%02d", i), V: fmt.Sprint((i*7)%23 - 4)})
		}
		st = &gen.Store{Family: "derived", Pairs: refstore.New(ps).Pairs()}
		vdef := gen.Call("int", gen.Value())
		v := func() *gen.Node { return gen.Ref("v", vdef) }
		stmt = &gen.Stmt{Kind: "select", Where: gen.Bin("^=", gen.Key(), gen.Str("k")), Fields: []gen.Field{{E: gen.Key()}, {E: vdef, Alias: "v"},
			{E: gen.Bin("*", v(), gen.Int(2)), Alias: "a"}, {E: gen.Bin("*", v(), gen.Int(3)), Alias: "b"}, {E: gen.Bin("+", gen.Bin("*", v(), gen.Int(2)), v()), Alias: "c"}}}
		switch r.Intn(3) {
		case 0:
			stmt.Where = gen.And(stmt.Where, gen.Bin(">", gen.Bin("+", v(), gen.Int(100)), gen.Int(0)))
		case 1: // the named field drops pairs here and there: the first scanned pair passes, later ones do not
			stmt.Where = gen.And(gen.Bin("!=", v(), gen.Int(int64((r.Range(1, 6)*7)%23-4))), gen.Bin("!=", v(), gen.Int(int64((r.Range(1, 6)*7)%23-4))))
		}
		query = stmt.Text(gen.Plain)
	} else if r.Chance(1, 16) {
		// a pair that fails at run time right behind a LIMIT window: whoever reads one pair more
		// than the window needs fails in one mode only
		c.Rec.Inc("failing_pair_behind_the_window")
		n := r.Range(1, 6)
		var ps []refstore.Pair
		for i := 0; i < n+r.Range(1, 4); i++ {
			v := fmt.Sprint(i + 1)
			if i == n {
				v = "0"
			}
			ps = append(ps, refstore.Pair{K: fmt.Sprintf("k%02d", i), V: v})
		}
		st = &gen.Store{Family: "window", Pairs: refstore.New(ps).Pairs()}
		stmt = &gen.Stmt{Kind: "select", Where: gen.Bin("^=", gen.Key(), gen.Str("k")), Fields: []gen.Field{{E: gen.Key()}, {E: gen.Bin("/", gen.Int(100), gen.Call("int", gen.Value())), Alias: "q"}}, HasLim: true, Count: n}
		if r.Bool() {
			stmt.Where = gen.And(stmt.Where, gen.Bin(">", gen.Bin("/", gen.Int(100), gen.Call("int", gen.Value())), gen.Int(0)))
			stmt.Fields = stmt.Fields[:1]
		}
		query = stmt.Text(gen.Plain)
	} else if r.Chance(1, 6) {
		// runs: whole chunks on which the left operand of & / | decides every pair, then a
		// chunk where the right operand (a named field) decides; small batch sizes
		c.Rec.Inc("run_structured_stores")
		var ps []refstore.Pair
		n := r.Range(6, 14)
		letter := byte('a')
		for i := 0; i < n; i++ {
			if r.Chance(1, 3) {
				letter = "ab"[r.Intn(2)]
			}
			ps = append(ps, refstore.Pair{K: fmt.Sprintf("k%02d", i), V: fmt.Sprintf("%c%d", letter, i%4)})
		}
		st = &gen.Store{Family: "runs", Pairs: refstore.New(ps).Pairs()}
		u := gen.Ref("u", gen.Call("upper", gen.Value()))
		var right *gen.Node
		switch r.Intn(3) {
		case 0:
			right = gen.Bin("=", u, gen.Str(fmt.Sprintf("B%d", r.Intn(4))))
		case 1:
			right = gen.Bin("^=", u, gen.Str("B"))
		default:
			right = gen.Bin(">", gen.Call("strlen", gen.Bin("+", u, gen.Str("x"))), gen.Int(2))
		}
		var w *gen.Node
		if r.Bool() {
			w = gen.And(gen.Bin("^=", gen.Value(), gen.Str("b")), right)
		} else {
			w = gen.Or(gen.Bin("^=", gen.Value(), gen.Str("a")), right)
		}
		stmt = &gen.Stmt{Kind: "select", Where: w, Fields: []gen.Field{{E: gen.Key()}, {E: gen.Call("upper", gen.Value()), Alias: "u"}}}
		if r.Chance(2, 3) {
			// a second field defined through the first, shown and used by the filter as well
			wdef := gen.Bin("+", u, gen.Str("!"))
			stmt.Fields = append(stmt.Fields, gen.Field{E: wdef, Alias: "w"})
			stmt.Where = gen.And(w, gen.Bin(">", gen.Call("strlen", gen.Ref("w", wdef)), gen.Int(2)))
		}
		query = stmt.Text(gen.Plain)
		sizes = []int{1, 2, 3}
		if r.Bool() {
			sizes = []int{2, 3, 5}
		}
	}
	hit := k.judge(c, stmt, query, st.Pairs, sizes, "")
	if hit == "" {
		return
	}
	if st.Family == "dupnames" {
		// written as text (the statement tree is a stand-in): reported as written
		k.judge(c, stmt, query, st.Pairs, sizes, query)
		return
	}
	// shrink (clustering only)
	probe := &rt.Ctx{Prop: c.Prop, Tier: c.Tier, Seed: c.Seed, Case: c.Case, R: c.R.Fork(), Rec: rt.NewRec(), Avoid: c.Avoid}
	small := shrinkStmt(stmt, func(s *gen.Stmt) bool {
		return k.judge(probe, s, s.Text(gen.Plain), st.Pairs, sizes, "") == hit
	}, 80)
	k.judge(c, stmt, query, st.Pairs, sizes, small.Text(gen.Plain))
}

// judge returns the name of the violated oracle ("" if none). It records the
// violation only when shrunk != "" (second pass).
func (k c03) judge(c *rt.Ctx, stmt *gen.Stmt, query string, pairs []refstore.Pair, sizes []int, shrunk string) (hit string) {
	rec := c.Rec
	rowStore := refstore.New(pairs)
	row := drive.Run(query, rowStore, drive.Mode{Batch: false, Size: sizes[0], Cache: true})
	rec.Eval(1)
	c.Logf("query: %s\nstore(%d): %v\nrow mode: %v", query, len(pairs), storeBrief(pairs), outcomeBrief(row))
	viol := func(oracle string, m drive.Mode, b *drive.Outcome, note string, bst *refstore.Store) {
		hit = oracle
		if shrunk == "" {
			return
		}
		c.Violation(oracle, aliasRe.ReplaceAllString(rt.Shape(shrunk), "A"), func() rt.D {
			return rt.D{"query": query, "shrunk": shrunk, "store": storeBrief(pairs), "batch_mode": m.String(), "row": outcomeBrief(row), "batch": outcomeBrief(b), "note": note, "batches": b.BatchSizes}
		})
	}
	for _, sz := range sizes {
		m := drive.Mode{Batch: true, Size: sz, Cache: true}
		bst := refstore.New(pairs)
		b := drive.Run(query, bst, m)
		rec.Eval(1)
		c.Logf("batch mode %s: %v", m, outcomeBrief(b))
		if b.Status() != "ok" {
			rec.NotJudged("batch iteration did not complete (" + b.Status() + "): nothing is required of row iteration")
			continue
		}
		rec.Inc("compared")
		if len(b.Rows) > 0 {
			rec.DistinctS(query + "\x00" + pairsKey(pairs))
		}
		switch {
		case len(b.Rows) < sz:
			rec.Inc("rel:lt")
		case len(b.Rows) == sz:
			rec.Inc("rel:eq")
		default:
			rec.Inc("rel:gt")
		}
		row, rowStore := row, rowStore
		if stmt.Kind == "delete" && sz != sizes[0] {
			// DELETE collects its pairs through the vector path whichever entry point is polled, in
			// chunks of the batch size: the two entry points are compared at the SAME size (a
			// pair that fails at run time beyond the LIMIT window is evaluated or not depending
			// on the chunk size - the property's own "whenever batch iteration completes" clause)
			rowStore = refstore.New(pairs)
			row = drive.Run(query, rowStore, drive.Mode{Batch: false, Size: sz, Cache: true})
			rec.Eval(1)
		}
		if row.Status() != "ok" {
			viol("batch-completes-row-fails", m, b, "row iteration: "+row.Status(), bst)
			return hit
		}
		// rows
		if !drive.RowsEqual(row.Rows, b.Rows) {
			if msg := c03RowsAgree(stmt, row, b); msg != "" {
				viol("rows-differ", m, b, msg, bst)
				return hit
			}
		}
		if stmt.Kind != "select" && !bst.Equal(rowStore.Pairs()) {
			viol("post-state-differs", m, b, diffPairs(rowStore.Pairs(), bst.Pairs()), bst)
			return hit
		}
		if shrunk == "" {
			for _, line := range b.Explain {
				if i := strings.IndexByte(line, '{'); i > 0 {
					rec.Inc("plan:" + line[:i])
				} else {
					rec.Inc("plan:" + line)
				}
			}
			seen := map[string]bool{}
			mark := func(n *gen.Node) {
				if n == nil {
					return
				}
				n.Walk(func(x *gen.Node) {
					if x.K == gen.KCall && !seen[x.Op] {
						seen[x.Op] = true
						rec.Inc("fn:" + x.Op)
					}
					if x.K == gen.KRef {
						x.Def.Walk(func(y *gen.Node) {
							if y.K == gen.KCall && !seen[y.Op] {
								seen[y.Op] = true
								rec.Inc("fn:" + y.Op)
							}
						})
					}
				})
			}
			mark(stmt.Where)
			for _, f := range stmt.Fields {
				mark(f.E)
			}
			for _, p := range stmt.Pairs {
				mark(p[0])
				mark(p[1])
			}
		}
	}
	if shrunk == "" && c.Case%400 == 0 {
		rec.Sample(rt.D{"query": query, "store_family_size": len(pairs), "batch_sizes": sizes, "row_status": row.Status(), "rows": len(row.Rows)})
	}
	return ""
}

// c03RowsAgree applies the tie tolerance of the property. "" = agree.
func c03RowsAgree(stmt *gen.Stmt, row, b *drive.Outcome) string {
	if len(row.Rows) != len(b.Rows) {
		return sprintf("row count differs: row mode %d, batch mode %d", len(row.Rows), len(b.Rows))
	}
	if len(stmt.OrderBy) == 0 {
		return "different rows: " + diffRows(row.Rows, b.Rows)
	}
	// positions of the order keys among the announced field names
	var idx []int
	var tps []byte
	for _, o := range stmt.OrderBy {
		found := -1
		for i, fn := range row.FieldNames {
			if strings.EqualFold(fn, o.Name) {
				found = i
				break
			}
		}
		if found < 0 {
			return "different rows (order key not found among the field names)"
		}
		idx = append(idx, found)
		tp := byte('S')
		if found < len(row.FieldTypes) {
			switch row.FieldTypes[found] {
			case 3:
				tp = 'N'
			case 1:
				tp = 'B'
			}
		}
		tps = append(tps, tp)
	}
	sameKeys := func(a, b []string) bool {
		for j, i := range idx {
			if a[i] == b[i] {
				continue
			}
			cmp, ok := refeval.CompareCols(tps[j], a[i], b[i])
			if !ok || cmp != 0 {
				return false
			}
		}
		return true
	}
	for i := range row.Rows {
		if !sameKeys(row.Rows[i], b.Rows[i]) {
			return sprintf("sort-key sequence differs at row %d", i)
		}
	}
	if stmt.HasLim {
		return "" // a tie run cut by the limit may differ
	}
	// same multiset inside each tie run
	i := 0
	for i < len(row.Rows) {
		j := i + 1
		for j < len(row.Rows) && sameKeys(row.Rows[i], row.Rows[j]) {
			j++
		}
		ma := map[string]int{}
		for _, r := range row.Rows[i:j] {
			ma[drive.RowKey(r)]++
		}
		for _, r := range b.Rows[i:j] {
			ma[drive.RowKey(r)]--
		}
		for _, v := range ma {
			if v != 0 {
				return sprintf("tie run [%d,%d) holds different rows", i, j)
			}
		}
		i = j
	}
	return ""
}

func (k c03) RunWitness(c *rt.Ctx, w map[string]any) {
	q, _ := w["statement"].(string)
	pairs := pairsFromAny(w["store"])
	size := 32
	if f, ok := w["batch"].(float64); ok {
		size = int(f)
	}
	row := drive.Run(q, refstore.New(pairs), drive.Mode{Size: size, Cache: true})
	b := drive.Run(q, refstore.New(pairs), drive.Mode{Batch: true, Size: size, Cache: true})
	if b.Status() == "ok" && (row.Status() != "ok" || !drive.RowsEqual(row.Rows, b.Rows)) {
		c.Violation("witness", "witness", func() rt.D { return rt.D{"query": q, "row": outcomeBrief(row), "batch": outcomeBrief(b)} })
	}
}
