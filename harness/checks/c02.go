package checks

import (
	"bytes"
	"fmt"
	"sort"
	"strings"

	kvql "github.com/c4pt0r/kvql"

	"kvqlverif/drive"
	"kvqlverif/gen"
	"kvqlverif/refstore"
	"kvqlverif/rt"
)

// C02 — scan narrowing never loses a row. Oracles: (1) region containment:
// every key whose pair satisfies the clause under the engine's own
// un-optimised filter lies inside the region of the chosen scan node;
// (2) end-to-end: rows / deleted keys equal full-scan-and-filter.

type c02 struct{ rt.Base }

func init() { rt.Register(&c02{}) }

func (c02) ID() string { return "C02" }

var c02Pool = []string{"a", "ab", "b", "abc", "c", "ba"}

// c02Universe: every string over {a,b,c} up to length 3 plus boundary keys
// around each pool literal.
var c02Universe = func() []string {
	set := map[string]bool{}
	var rec func(s string, d int)
	rec = func(s string, d int) {
		if s != "" {
			set[s] = true
		}
		if d == 3 {
			return
		}
		for _, ch := range "abc" {
			rec(s+string(ch), d+1)
		}
	}
	rec("", 0)
	for _, l := range c02Pool {
		set[l+"\x00"] = true
		set[l+"\xff"] = true
		set[l+"~"] = true
		set[l+"A"] = true
		if len(l) > 0 {
			p := []byte(l)
			p[len(p)-1]--
			set[string(p)+"\xff"] = true
			set[string(p)] = true
		}
	}
	for _, k := range []string{"A", "B", "d", "~", "\x01", "\xff", "aA", "abca", "abcc", "cccc", "aab", "x", "1", "a\xff\x00", "a\xffb", "a\xff\xff", "\xff\xff", "\xffa"} {
		set[k] = true
	}
	set[""] = true // the empty key is a key like any other (it is what key = '' and key <= '' select)
	out := make([]string, 0, len(set))
	for k := range set {
		out = append(out, k)
	}
	sort.Strings(out)
	return out
}()

// signature of a key with respect to the pool literals
func c02Sig(k string) string {
	var b strings.Builder
	for _, l := range c02Pool {
		c := strings.Compare(k, l)
		b.WriteByte(byte('1' + c))
		if strings.HasPrefix(k, l) {
			b.WriteByte('p')
		} else {
			b.WriteByte('-')
		}
		if strings.HasPrefix(l, k) {
			b.WriteByte('q')
		} else {
			b.WriteByte('-')
		}
	}
	return b.String()
}

// c02Adequacy compares the relationship signatures realised by the universe
// with those of a much larger one (one more character, wider alphabet).
var c02AdequacyMissing = func() []string {
	have := map[string]bool{}
	for _, k := range c02Universe {
		have[c02Sig(k)] = true
	}
	alpha := []byte{0x00, 'A', 'a', 'b', 'c', 'd', '~', 0xff}
	missing := map[string]string{}
	var rec func(s []byte, d int)
	rec = func(s []byte, d int) {
		if len(s) > 0 {
			sig := c02Sig(string(s))
			if !have[sig] {
				if _, ok := missing[sig]; !ok {
					missing[sig] = string(s)
				}
			}
		}
		if d == 4 {
			return
		}
		for _, ch := range alpha {
			rec(append(s, ch), d+1)
		}
	}
	rec(nil, 0)
	var out []string
	for _, k := range missing {
		out = append(out, k)
	}
	sort.Strings(out)
	return out
}()

// ---- atoms

type c02Atom struct {
	n     *gen.Node
	kind  string // scan class it should induce: mget, prefix, ge, le, between, opaque
	canon bool   // representative used for the depth-2 enumeration
}

func c02Atoms() []c02Atom {
	var out []c02Atom
	K := gen.Key
	for _, l := range c02Pool {
		L := func() *gen.Node { return gen.Str(l) }
		out = append(out, c02Atom{gen.Bin("=", K(), L()), "mget", true})
		out = append(out, c02Atom{gen.Bin("=", L(), K()), "mget", false})
		out = append(out, c02Atom{gen.Bin("^=", K(), L()), "prefix", true})
		out = append(out, c02Atom{gen.Bin("^=", L(), K()), "opaque", false}) // literal starts with key: does not pin a prefix
		out = append(out, c02Atom{gen.Bin(">=", K(), L()), "ge", true})
		out = append(out, c02Atom{gen.Bin(">", K(), L()), "ge", false})
		out = append(out, c02Atom{gen.Bin("<=", K(), L()), "le", true})
		out = append(out, c02Atom{gen.Bin("<", K(), L()), "le", false})
		out = append(out, c02Atom{gen.Bin(">=", L(), K()), "le", false})
		out = append(out, c02Atom{gen.Bin(">", L(), K()), "le", false})
		out = append(out, c02Atom{gen.Bin("<=", L(), K()), "ge", false})
		out = append(out, c02Atom{gen.Bin("<", L(), K()), "ge", false})
	}
	for i, a := range c02Pool {
		for j, b := range c02Pool {
			if i < j {
				out = append(out, c02Atom{gen.In(K(), gen.Str(a), gen.Str(b)), "mget", true})
			}
			if a < b {
				out = append(out, c02Atom{gen.Between(K(), gen.Str(a), gen.Str(b)), "between", true})
			}
			if a > b && (i+j)%3 == 0 {
				// reversed bounds: a run-time error on every pair that reaches the atom, so it
				// constrains nothing; the clause is judged on the pairs that never reach it
				out = append(out, c02Atom{gen.Between(K(), gen.Str(a), gen.Str(b)), "opaque", false})
			}
		}
	}
	out = append(out, c02Atom{gen.In(K(), gen.Str("a"), gen.Str("a")), "mget", false})
	// IN lists with items that are not literals: no exact key set can be pinned
	out = append(out, c02Atom{gen.In(K(), gen.Value(), gen.Str("ab")), "opaque", false})
	out = append(out, c02Atom{gen.In(K(), gen.Str("ab"), gen.Value()), "opaque", false})
	out = append(out, c02Atom{gen.In(K(), gen.Call("lower", gen.Str("B")), gen.Str("c")), "opaque", false})
	out = append(out, c02Atom{gen.In(K(), gen.Str("c"), gen.Bin("+", gen.Str("a"), gen.Str("b")), gen.Str("zz")), "opaque", false})
	out = append(out, c02Atom{gen.In(K(), gen.Str("b"), gen.Str("zz"), gen.Str("ab")), "mget", false})
	// listed keys that are not stored, sorting before stored ones (point reads that find nothing first)
	out = append(out, c02Atom{gen.In(K(), gen.Str("c"), gen.Str("aaaa"), gen.Str("b"), gen.Str("aaab")), "mget", false})
	// BETWEEN with a bound that is not a literal pins nothing
	out = append(out, c02Atom{gen.Between(K(), gen.Str("a"), gen.Value()), "opaque", false})
	out = append(out, c02Atom{gen.Between(K(), gen.Value(), gen.Str("c")), "opaque", false})
	out = append(out, c02Atom{gen.Between(K(), gen.Str("ab"), gen.Call("lower", gen.Str("C"))), "opaque", false})
	// literals ending in the highest byte value (no successor: "prefix + 1" has to carry)
	out = append(out, c02Atom{gen.Bin("^=", K(), gen.Str("a\xff")), "prefix", false})
	out = append(out, c02Atom{gen.Bin("^=", K(), gen.Str("\xff")), "prefix", false})
	out = append(out, c02Atom{gen.Bin(">=", K(), gen.Str("a\xff")), "ge", false})
	out = append(out, c02Atom{gen.Between(K(), gen.Str("a\xff"), gen.Str("b")), "between", false})
	// specials around the empty literal
	out = append(out, c02Atom{gen.Bin(">=", K(), gen.Str("")), "opaque", true})
	out = append(out, c02Atom{gen.Bin("<=", K(), gen.Str("")), "le", true})
	out = append(out, c02Atom{gen.Bin("^=", K(), gen.Str("")), "prefix", true})
	out = append(out, c02Atom{gen.Bin(">=", gen.Str(""), K()), "le", false})
	out = append(out, c02Atom{gen.Bin(">", gen.Str(""), K()), "le", false})
	out = append(out, c02Atom{gen.Bin("<=", gen.Str(""), K()), "opaque", false})
	out = append(out, c02Atom{gen.Bin("<", K(), gen.Str("")), "le", false})
	// opaque atoms
	out = append(out, c02Atom{gen.Bin("=", gen.Value(), gen.Str("x")), "opaque", true})
	out = append(out, c02Atom{gen.Call("is_int", gen.Value()), "opaque", false})
	out = append(out, c02Atom{gen.Bin("=", gen.Call("upper", K()), gen.Str("AB")), "opaque", false})
	out = append(out, c02Atom{gen.Bin("!=", K(), gen.Str("b")), "opaque", false})
	out = append(out, c02Atom{gen.Bin("~=", K(), gen.Str("^a")), "opaque", false})
	// anchored patterns: the literal after the anchor is not a prefix of every match when a
	// quantifier allows zero repetitions of its last character or an alternation follows
	for _, pat := range []string{"^ab*$", "^ab?", "^a|^c", "^(ab|c)", "^ab{0,1}c", "^b|c$", "^ab.*", "^a*b"} {
		out = append(out, c02Atom{gen.Bin("~=", K(), gen.Str(pat)), "opaque", false})
	}
	out = append(out, c02Atom{gen.Not(gen.Bin("=", K(), gen.Str("a"))), "opaque", false})
	out = append(out, c02Atom{gen.Not(gen.Bin(">", K(), gen.Str("b"))), "opaque", false})
	// wave 14: point keys that sort after the one-byte key 0xff (C02-y: an open upper end replaced
	// by that key when points meet a half-bounded range) and comparisons of a computed text over
	// the key with a literal, which pin nothing (C02-z: planned as a range over the key)
	out = append(out, c02Atom{gen.In(K(), gen.Str("\xffa"), gen.Str("b"), gen.Str("\xff\xff"), gen.Str("\xff")), "mget", false})
	out = append(out, c02Atom{gen.Bin("=", K(), gen.Str("\xffa")), "mget", false})
	out = append(out, c02Atom{gen.Bin(">", gen.Call("lower", K()), gen.Str("a")), "opaque", false})
	out = append(out, c02Atom{gen.Bin(">=", gen.Call("lower", K()), gen.Str("ab")), "opaque", false})
	out = append(out, c02Atom{gen.Bin("<", gen.Str("a"), gen.Call("lower", K())), "opaque", false})
	out = append(out, c02Atom{gen.Bin("<", gen.Call("upper", K()), gen.Str("B")), "opaque", false})
	out = append(out, c02Atom{gen.Bin(">=", gen.Str("B"), gen.Call("upper", K())), "opaque", false})
	out = append(out, c02Atom{gen.Bin(">", gen.Bin("+", gen.Str("b"), K()), gen.Str("ba")), "opaque", false})
	return out
}

var c02All = c02Atoms()
var c02Canon = func() []c02Atom {
	var out []c02Atom
	for _, a := range c02All {
		if a.canon {
			out = append(out, a)
		}
	}
	return out
}()

// enumeration layout: [0,d1) all depth<=1 trees over all atoms; then depth-2
// trees over canonical atoms (thorough: all; quick: a sampled subset); then
// sampled deeper trees.
func c02D1() int { n := len(c02All); return n + n*n*2 }
func c02D2() int { n := len(c02Canon); return n * n * n * 8 }

const c02Block = 64 // depth-2 trees per case

func (c02) NumCases(tier string) int {
	d1 := (c02D1() + c02Block - 1) / c02Block
	if tier == "thorough" {
		return d1 + (c02D2()+c02Block-1)/c02Block + 200000/c02Block
	}
	return d1 + 40000/c02Block + 20000/c02Block
}

func (c02) Exhaustive(tier string) bool { return tier == "thorough" }

func (c02) Rule() string {
	return fmt.Sprintf("predicate trees over %d key-constraining and opaque atoms (literal on either side, strict and non-strict, IN, BETWEEN, empty literal) with literals from the pool %v: all trees of depth<=1 (both tiers), all depth-2 trees over %d canonical atoms (thorough; sampled in quick), sampled trees of depth 3-5; each judged over a %d-key universe whose order/prefix relationship signatures are checked against a 4680-key universe. Every generated tree counts as non-trivial when its clause is satisfied by at least one universe key; distinct by printed text.", len(c02All), c02Pool, len(c02Canon), len(c02Universe))
}

func (c02) Assumptions() []string {
	return []string{
		"satisfying keys are computed with the engine's own un-optimised filter (Parser.Parse -> FilterExec.Filter), per the property's observe_at: evaluator bugs are C01's",
		"literals are short strings over {a,b,c} (+ the empty literal); the signature check is what justifies generalising from the universe",
		"Storage contract of DESIGN section 1",
	}
}

func (c02) Gates(tier string, m map[string]int64) []rt.Gate {
	return []rt.Gate{
		rt.GateMin("scan kind empty", m, "scan:empty", 1),
		rt.GateMin("scan kind mget", m, "scan:mget", 1),
		rt.GateMin("scan kind prefix", m, "scan:prefix", 1),
		rt.GateMin("scan kind range", m, "scan:range", 1),
		rt.GateMin("scan kind full", m, "scan:full", 1),
		rt.GateMin("delete turned into direct removal", m, "scan:remove", 1),
		{Name: "universe realises every relationship signature", Observed: int64(len(c02AdequacyMissing)), Need: 0, OK: len(c02AdequacyMissing) == 0},
		rt.GateMin("regions checked", m, "regions_checked", 1000),
	}
}

// c02Stores: two value assignments so that opaque atoms are both true and
// false on every key.
func c02Store(flip int) []refstore.Pair {
	ps := make([]refstore.Pair, len(c02Universe))
	for i, k := range c02Universe {
		v := "x"
		if (i+flip)%2 == 1 {
			v = "1"
		}
		if flip == 1 && (i%5 == 2 || k == "ab" || k == "c") {
			v = "" // a stored pair with an empty value is a pair like any other
		}
		ps[i] = refstore.Pair{K: k, V: v}
	}
	return ps
}

var c02StoreA, c02StoreB = c02Store(0), c02Store(1)

func c02Tree(idx int, r *rt.Rand, tier string) (*gen.Node, string) {
	n := len(c02All)
	if idx < n {
		return c02All[idx].n, "d0"
	}
	idx -= n
	if idx < n*n*2 {
		a, b := c02All[idx%n], c02All[(idx/n)%n]
		if idx/(n*n) == 0 {
			return gen.And(a.n, b.n), "d1"
		}
		return gen.Or(a.n, b.n), "d1"
	}
	return nil, ""
}

func c02Depth2(idx int) *gen.Node {
	m := len(c02Canon)
	a, b, cc := c02Canon[idx%m], c02Canon[(idx/m)%m], c02Canon[(idx/(m*m))%m]
	v := idx / (m * m * m) // 0..7
	op1 := gen.And
	if v&1 == 1 {
		op1 = gen.Or
	}
	op2 := gen.And
	if v&2 == 2 {
		op2 = gen.Or
	}
	if v&4 == 0 {
		return op2(op1(a.n, b.n), cc.n)
	}
	return op2(a.n, op1(b.n, cc.n))
}

func c02Random(r *rt.Rand, depth int) *gen.Node {
	if depth == 0 || r.Chance(1, 5) {
		return c02All[r.Intn(len(c02All))].n
	}
	l, rr := c02Random(r, depth-1), c02Random(r, depth-1)
	var n *gen.Node
	if r.Bool() {
		n = gen.And(l, rr)
	} else {
		n = gen.Or(l, rr)
	}
	n.Sym = r.Bool()
	return n
}

func (k c02) Run(c *rt.Ctx) {
	d1cases := (c02D1() + c02Block - 1) / c02Block
	idx := c.Case
	if idx == 0 {
		// a fixed family, not left to the sampled depth-2 trees (C02-u was reached by a draw and lost
		// when wave 14 added atoms): a prefix joined with the union of an equality and a one-sided
		// range, over literals that include the empty one, in both orders
		K := gen.Key
		for _, p := range []string{"", "a", "ab"} {
			for _, e := range []string{"", "a", "ab", "b"} {
				for _, op := range []string{">", ">=", "<", "<="} {
					for _, l := range []string{"", "a", "ab", "b"} {
						u := gen.Or(gen.Bin("=", K(), gen.Str(e)), gen.Bin(op, K(), gen.Str(l)))
						k.judgeTree(c, gen.And(gen.Bin("^=", K(), gen.Str(p)), u), false)
						k.judgeTree(c, gen.And(gen.Or(gen.Bin(op, K(), gen.Str(l)), gen.Bin("=", K(), gen.Str(e))), gen.Bin("^=", K(), gen.Str(p))), false)
						c.Rec.Inc("prefix_with_union_of_equality_and_range")
					}
				}
			}
		}
	}
	if idx < d1cases {
		for i := idx * c02Block; i < (idx+1)*c02Block && i < c02D1(); i++ {
			t, _ := c02Tree(i, c.R, c.Tier)
			k.judgeTree(c, t, true)
		}
		return
	}
	idx -= d1cases
	if c.Thorough() {
		d2cases := (c02D2() + c02Block - 1) / c02Block
		if idx < d2cases {
			for i := idx * c02Block; i < (idx+1)*c02Block && i < c02D2(); i++ {
				k.judgeTree(c, c02Depth2(i), i%7 == 0)
			}
			return
		}
		for i := 0; i < c02Block; i++ {
			k.judgeTree(c, c02Random(c.R, c.R.Range(3, 5)), i%4 == 0)
		}
		return
	}
	if idx < 40000/c02Block {
		for i := 0; i < c02Block; i++ {
			k.judgeTree(c, c02Depth2(c.R.Intn(c02D2())), i%4 == 0)
		}
		return
	}
	for i := 0; i < c02Block; i++ {
		k.judgeTree(c, c02Random(c.R, c.R.Range(3, 5)), i%4 == 0)
	}
}

type c02Region struct {
	kind  string
	keys  map[string]bool
	pre   string
	lo    []byte
	hi    []byte
	descr string
}

func c02RegionOf(p kvql.FinalPlan) (c02Region, bool) {
	var scan kvql.Plan
	if rp, ok := p.(*kvql.RemovePlan); ok {
		// direct removal of a literal key set: region is that set
		r := c02Region{kind: "remove", keys: map[string]bool{}}
		for _, e := range rp.Keys {
			if se, ok := e.(*kvql.StringExpr); ok {
				r.keys[se.Data] = true
			} else {
				return r, false
			}
		}
		r.descr = fmt.Sprintf("REMOVE%v", keysOf(r.keys))
		return r, true
	}
	scan = drive.ScanNode(p)
	switch s := scan.(type) {
	case *kvql.EmptyResultPlan:
		return c02Region{kind: "empty", descr: "EMPTY"}, true
	case *kvql.MultiGetPlan:
		r := c02Region{kind: "mget", keys: map[string]bool{}}
		for _, k := range s.Keys {
			r.keys[k] = true
		}
		r.descr = fmt.Sprintf("MGET%v", s.Keys)
		return r, true
	case *kvql.PrefixScanPlan:
		return c02Region{kind: "prefix", pre: s.Prefix, descr: fmt.Sprintf("PREFIX(%q)", s.Prefix)}, true
	case *kvql.RangeScanPlan:
		return c02Region{kind: "range", lo: s.Start, hi: s.End, descr: fmt.Sprintf("RANGE[%s,%s]", bstr(s.Start), bstr(s.End))}, true
	case *kvql.FullScanPlan:
		return c02Region{kind: "full", descr: "FULL"}, true
	}
	return c02Region{}, false
}

func bstr(b []byte) string {
	if b == nil {
		return "nil"
	}
	return fmt.Sprintf("%q", string(b))
}

func keysOf(m map[string]bool) []string {
	var out []string
	for k := range m {
		out = append(out, k)
	}
	sort.Strings(out)
	return out
}

func (r c02Region) contains(k string) bool {
	switch r.kind {
	case "empty":
		return false
	case "mget", "remove":
		return r.keys[k]
	case "prefix":
		return strings.HasPrefix(k, r.pre)
	case "range":
		if r.lo != nil && bytes.Compare([]byte(k), r.lo) < 0 {
			return false
		}
		if r.hi != nil && bytes.Compare([]byte(k), r.hi) > 0 {
			return false
		}
		return true
	}
	return true
}

// c02Sat evaluates the clause with the engine's own un-optimised filter.
//
// evaluable: the pairs on which the filter evaluates without a run-time error
// (a reversed BETWEEN fails on every pair that reaches it); the clause is then
// judged on the sub-store of those pairs, on which it is evaluable pair by pair.
func c02Sat(query string, pairs []refstore.Pair) (sat, evaluable []refstore.Pair, err string) {
	defer func() {
		if r := recover(); r != nil {
			err = fmt.Sprint("panic: ", r)
		}
	}()
	stmt, perr := kvql.NewParser(query).Parse()
	if perr != nil {
		return nil, nil, "parse: " + perr.Error()
	}
	sel, ok := stmt.(*kvql.SelectStmt)
	if !ok {
		return nil, nil, "not a select"
	}
	f := &kvql.FilterExec{Ast: sel.Where}
	ctx := kvql.NewExecuteCtx()
	first := ""
	for _, p := range pairs {
		ok, e := f.Filter(kvql.NewKVPStr(p.K, p.V), ctx)
		if e != nil {
			if first == "" {
				first = "filter: " + e.Error()
			}
			continue
		}
		evaluable = append(evaluable, p)
		if ok {
			sat = append(sat, p)
		}
	}
	if len(evaluable) == 0 && first != "" {
		return nil, nil, first
	}
	return sat, evaluable, ""
}

func (k c02) judgeTree(c *rt.Ctx, tree *gen.Node, endToEnd bool) {
	oracle := k.judge(c, tree, endToEnd, nil)
	if oracle == "" {
		return
	}
	probe := &rt.Ctx{Prop: c.Prop, Tier: c.Tier, Seed: c.Seed, Case: c.Case, R: c.R.Fork(), Rec: rt.NewRec(), Avoid: c.Avoid}
	small := shrinkBool(tree, func(p *gen.Node) bool { return k.judge(probe, p, endToEnd, nil) == oracle }, 200)
	k.judge(c, tree, endToEnd, small)
}

func (k c02) judge(c *rt.Ctx, tree *gen.Node, endToEnd bool, report *gen.Node) (hit string) {
	rec := c.Rec
	where := gen.Print(tree)
	query := "select * where " + where
	viol := func(oracle string, d func() rt.D) {
		hit = oracle
		if report != nil {
			c.Violation(oracle, gen.Print(report), func() rt.D {
				m := d()
				m["query"] = query
				m["shrunk_where"] = gen.Print(report)
				return m
			})
		}
	}
	for si, pairs := range [][]refstore.Pair{c02StoreA, c02StoreB} {
		sat, evaluable, ferr := c02Sat(query, pairs)
		if ferr != "" {
			rec.NotJudged("engine's un-optimised filter failed on every pair: " + firstWords(ferr))
			return ""
		}
		if len(evaluable) < len(pairs) {
			// judged on the sub-store on which the clause is evaluable pair by pair
			pairs = evaluable
			if si == 0 && report == nil {
				rec.Inc("judged_on_evaluable_substore")
			}
		}
		st := refstore.New(pairs)
		var plan kvql.FinalPlan
		var perr error
		func() {
			defer func() {
				if r := recover(); r != nil {
					perr = fmt.Errorf("panic: %v", r)
				}
			}()
			plan, perr = kvql.NewOptimizer(query).BuildPlan(st)
		}()
		rec.Eval(1)
		if perr != nil {
			rec.NotJudged("BuildPlan failed: " + firstWords(perr.Error()))
			return ""
		}
		reg, ok := c02RegionOf(plan)
		if !ok {
			rec.NotJudged("unrecognised scan node")
			return ""
		}
		if si == 0 && report == nil {
			rec.Inc("scan:" + reg.kind)
			rec.Inc("regions_checked")
			if len(sat) > 0 {
				rec.DistinctS(where)
			}
		}
		c.Logf("where %s  [store %d]\n  region %s  satisfying keys %d", where, si, reg.descr, len(sat))
		for _, p := range sat {
			if !reg.contains(p.K) {
				viol("region-loses-satisfying-key", func() rt.D {
					return rt.D{"region": reg.descr, "lost_key": p.K, "lost_value": p.V, "explain": plan.Explain(), "satisfying_keys": len(sat)}
				})
				return hit
			}
		}
		if !endToEnd {
			continue
		}
		// end to end: rows of the optimised plan = filter-true pairs
		want := pairRows(sat)
		m := drive.Mode{Batch: (c.Case+si)%2 == 0, Size: []int{1, 3, 32}[(c.Case/2+si)%3], Cache: true}
		o := drive.Run(query, refstore.New(pairs), m)
		rec.Eval(1)
		if o.Status() != "ok" {
			if o.Status() == "panic" || o.Status() == "runaway" {
				viol("crash-while-executing", func() rt.D { return rt.D{"observed": outcomeBrief(o), "mode": m.String()} })
				return hit
			}
			rec.NotJudged("execution returned an error: " + firstWords(o.ErrText()))
			continue
		}
		if !drive.RowsEqual(o.Rows, want) {
			viol("rows-differ-from-full-scan-and-filter", func() rt.D {
				return rt.D{"mode": m.String(), "diff": diffRows(want, o.Rows), "region": reg.descr, "explain": o.Explain}
			})
			return hit
		}
		// delete: post-state = prior - satisfying pairs
		dq := "delete where " + where
		dst := refstore.New(pairs)
		do := drive.Run(dq, dst, drive.Mode{Batch: si == 1, Size: m.Size, Cache: true})
		rec.Eval(1)
		if do.Status() == "ok" {
			if si == 0 && report == nil && do.Plan != nil {
				if _, isRm := do.Plan.(*kvql.RemovePlan); isRm {
					rec.Inc("scan:remove")
				}
			}
			satSet := map[string]bool{}
			for _, p := range sat {
				satSet[p.K] = true
			}
			var wantLeft []refstore.Pair
			for _, p := range pairs {
				if !satSet[p.K] {
					wantLeft = append(wantLeft, p)
				}
			}
			if !dst.Equal(wantLeft) {
				viol("delete-differs-from-full-scan-and-filter", func() rt.D {
					return rt.D{"statement": dq, "explain": do.Explain, "diff": diffPairs(wantLeft, dst.Pairs())}
				})
				return hit
			}
		} else if do.Status() == "panic" {
			viol("crash-while-executing", func() rt.D { return rt.D{"observed": outcomeBrief(do), "statement": dq} })
			return hit
		}
	}
	if report == nil && c.Case%211 == 0 && c.R.Chance(1, 16) {
		rec.Sample(rt.D{"where": where})
	}
	return ""
}

func diffPairs(want, got []refstore.Pair) string {
	w := map[string]string{}
	for _, p := range want {
		w[p.K] = p.V
	}
	g := map[string]string{}
	for _, p := range got {
		g[p.K] = p.V
	}
	var missing, extra, changed []string
	for k, v := range w {
		if gv, ok := g[k]; !ok {
			missing = append(missing, k)
		} else if gv != v {
			changed = append(changed, k)
		}
	}
	for k := range g {
		if _, ok := w[k]; !ok {
			extra = append(extra, k)
		}
	}
	sort.Strings(missing)
	sort.Strings(extra)
	sort.Strings(changed)
	cut := func(s []string) []string {
		if len(s) > 8 {
			return s[:8]
		}
		return s
	}
	return fmt.Sprintf("wrongly deleted=%q wrongly kept=%q changed=%q", cut(missing), cut(extra), cut(changed))
}

func (k c02) RunWitness(c *rt.Ctx, w map[string]any) {
	// not used: C02 has no recorded findings that need a tree-less witness
}
