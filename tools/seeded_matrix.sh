#!/bin/bash
# Runs every kept seeded defect against every check (quick tier) and writes seeded/MATRIX.tsv
# usage: tools/seeded_matrix.sh [out.tsv] [checks...]      (env PAR = mutants in parallel, default 4)
# One scratch worktree of /repo's HEAD per mutant (outside /repo and /verif, removed afterwards);
# /repo itself is never modified. Evidence/replay of these runs go to scratch directories.
cd "$(dirname "$0")/.." || exit 2
export V=$(pwd)
OUT=${1:-seeded/MATRIX.tsv}; shift
export CHECKS=${*:-C01 C02 C03 C04 C05 C06 C07 C08 C09 C10 C11 C12 C13 C14 C15 C16 C17 C18 C19}
PAR=${PAR:-4}
export VERIF_WORKERS=${VERIF_WORKERS:-4}
one() {
  d=$1; id=$(basename "$d")
  python3 - "$d/meta.json" <<'PY' || exit 0
import json,sys
m=json.load(open(sys.argv[1]))
ok=not m.get("excluded") and m.get("applies") and m.get("compiles") and m.get("existing_suite_passes_with_change") and m.get("demo_fails_with_change") and m.get("demo_passes_without_change")
sys.exit(0 if ok else 1)
PY
  # a small fixed set of worktree paths (slots): the Go build cache is keyed by the path of the
  # replaced module, so a fresh path per defect would recompile (and cache) everything each time
  slot=""
  while [ -z "$slot" ]; do
    for n in $(seq 1 ${PAR:-4}); do
      if mkdir "/tmp/seedmx.lock.$n" 2>/dev/null; then slot=$n; break; fi
    done
    [ -z "$slot" ] && sleep 1
  done
  SW=/tmp/seedmx.slot$slot; SC=$V/.work/seedmx.slot$slot
  trap 'git -C /repo worktree remove --force "$SW" >/dev/null 2>&1; rm -rf "$SC" "$SW"; rmdir "/tmp/seedmx.lock.$slot"' EXIT
  git -C /repo worktree remove --force "$SW" >/dev/null 2>&1; rm -rf "$SW" "$SC"
  git -C /repo worktree add --detach "$SW" HEAD >/dev/null 2>&1 || { echo "$id: cannot create worktree" >&2; exit 0; }
  ( cd "$SW" && { git apply "$V/$d/patch.diff" 2>/dev/null || { git apply -3 "$V/$d/patch.diff" >/dev/null 2>&1 && git reset -q; }; } ) || { printf '%s\t*\tnoapply\n' "$id"; exit 0; }
  mkdir -p "$SC"
  for c in $CHECKS; do
    VERIF_REPO="$SW" VERIF_WORK_SUFFIX=".mxslot$slot" VERIF_EVIDENCE_DIR="$SC" VERIF_REPLAY_DIR="$SC" ./run.sh "$c" quick > "$SC/out" 2>&1
    rc=$?
    orc=$(grep -A1 '^VIOLATION' "$SC/out" | sed -n 's/^ *oracle=\([^ ]*\).*/\1/p' | sort -u | head -3 | tr '\n' ',')
    printf '%s\t%s\t%s\t%s\n' "$id" "$c" "$rc" "$orc"
  done
}
export -f one
export PAR
rmdir /tmp/seedmx.lock.* 2>/dev/null
ls -d ${MUTANTS:-seeded/C*-[a-z]*} | xargs -P "$PAR" -I{} bash -c 'one {}' > "$OUT.tmp"
sort "$OUT.tmp" > "$OUT"; rm -f "$OUT.tmp"
echo "matrix written to $OUT: $(wc -l < "$OUT") rows"
