package main

import (
	"fmt"
	"strings"

	kvql "github.com/c4pt0r/kvql"
	"kvqlverif/drive"
	"kvqlverif/refstore"
)

func main() {
	ps := []refstore.Pair{{K: "a", V: "1"}}
	for _, q := range []string{"\n  select * where key = 1", "\t select * where key = 1", "\r\n select * where val = 1", " \t  where key ^= ", "\n\twhere key = 'a' & value + 1"} {
		st := refstore.New(ps)
		o := drive.Run(q, st, drive.Mode{Size: 3, Cache: true})
		err := o.Err()
		pos, kind, _ := drive.ErrPos(err)
		texts, pan, _ := drive.Render(err, q, []int{0})
		fmt.Printf("%q status=%s pos=%d kind=%s pan=%q\n%s\n", q, o.Status(), pos, kind, pan, strings.Join(texts, "\n"))
		l := kvql.NewLexer(q)
		for _, t := range l.Split() {
			fmt.Printf("  tok %q@%d", t.Data, t.Pos)
		}
		fmt.Println()
	}
}
