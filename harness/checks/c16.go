package checks

import (
	"fmt"
	"strings"
	"unicode/utf8"

	kvql "github.com/c4pt0r/kvql"

	"kvqlverif/rt"
)

// C16 — tokens carry their true offset and text; spacing is irrelevant.
//
// Monitors: (1) token truth + completeness against a reference tokenizer on
// every string of a bounded space (exhaustive); (2) spacing law on generated
// token streams rendered with every subset of optional blanks.

type c16 struct{ rt.Base }

func init() { rt.Register(&c16{}) }

func (c16) ID() string { return "C16" }

var c16Full = []byte("aB1. '\"`~^=!*+-/<>&|()[],;\\")
var c16Core = []byte("aB1. '\"`=!<^&(,-\\")

// c16Uni: a two-byte character (0xC3 0xA9) among separators: byte offsets and rune counts differ
var c16Uni = []byte("a '=|\xc3\xa9")

type c16Space struct {
	alpha  []byte
	maxLen int
	prefix int
}

func c16Spaces(tier string) []c16Space {
	if tier == "thorough" {
		return []c16Space{{c16Full, 5, 2}, {c16Core, 6, 2}, {c16Uni, 7, 2}}
	}
	return []c16Space{{c16Full, 4, 2}, {c16Core, 5, 2}, {c16Uni, 5, 2}}
}

func c16Streams(tier string) int {
	if tier == "thorough" {
		return 400000
	}
	return 30000
}

func ipow(b, e int) int {
	r := 1
	for i := 0; i < e; i++ {
		r *= b
	}
	return r
}

func (c c16) NumCases(tier string) int {
	n := 0
	for _, s := range c16Spaces(tier) {
		n += ipow(len(s.alpha), s.prefix) + 1
	}
	return n + c16Streams(tier)/100
}

func (c16) Exhaustive(string) bool { return true }

func (c16) Rule() string {
	return "exhaustive: every string up to the length bound over three token-relevant alphabets (quick: len<=4 over 27 symbols, len<=5 over 17, len<=5 over 7 incl. the two bytes of a non-ASCII character; thorough: len<=5 / len<=6 / len<=7), each judged by token truth and by comparison with a reference tokenizer; plus generated token streams rendered with every subset of optional blanks. A string is non-trivial if it yields at least two tokens or contains a quoted literal; enumerated strings are distinct by construction, streams are counted by hash."
}

func (c16) Assumptions() []string {
	return []string{
		"blank (0x20) is the only token separator (tabs/newlines are not in the alphabet, by the lexer's design)",
		"strings with an unterminated quote have no documented tokenisation: token truth is still checked, completeness is not (tallied as not judged)",
		"the reference tokenizer (60 lines, written from README's token classes) is the trusted base",
	}
}

func (c16) Gates(tier string, m map[string]int64) []rt.Gate {
	return []rt.Gate{
		rt.GateMin("strings judged against the reference tokenizer", m, "judged_strings", 100000),
		rt.GateMin("quoted literals observed", m, "quoted_tokens_seen", 1000),
		rt.GateMin("two-character operators observed", m, "twochar_ops_seen", 1000),
		rt.GateMin("stream renderings compared", m, "stream_renderings", 1000),
		rt.GateMin("word directly adjacent to a quote observed", m, "adjacent_word_quote", 100),
	}
}

// ---- reference tokenizer

type refTok struct {
	pos    int
	data   string
	class  byte // 'w' word, 'q' quoted string, 'n' backtick name, 'o' operator/punctuation
	quoteC byte
}

func c16IsDelim(ch byte) bool {
	switch ch {
	case ' ', '\'', '"', '`', '~', '^', '=', '!', '*', '+', '-', '/', '>', '<', '&', '|', '(', ')', '[', ']', ',', ';':
		return true
	}
	return false
}

// refTokenize returns the expected tokens, or judged=false with a reason when
// the documentation does not settle the tokenisation of q.
func refTokenize(q string) (toks []refTok, judged bool, why string) {
	i := 0
	for i < len(q) {
		ch := q[i]
		switch {
		case ch == ' ':
			i++
		case ch == '\'' || ch == '"' || ch == '`':
			j := strings.IndexByte(q[i+1:], ch)
			if j < 0 {
				return nil, false, "unterminated quote"
			}
			cl := byte('q')
			if ch == '`' {
				cl = 'n'
			}
			toks = append(toks, refTok{pos: i, data: q[i+1 : i+1+j], class: cl, quoteC: ch})
			i = i + 1 + j + 1
		case ch == '^' || ch == '~':
			if i+1 < len(q) && q[i+1] == '=' {
				toks = append(toks, refTok{pos: i, data: q[i : i+2], class: 'o'})
				i += 2
			} else {
				// not the beginning of ^= / ~=: a token by itself (no operator of the language, the
				// parser refuses it; no character outside blanks is dropped)
				toks = append(toks, refTok{pos: i, data: q[i : i+1], class: 'o'})
				i++
			}
		case ch == '!' || ch == '<' || ch == '>':
			if i+1 < len(q) && q[i+1] == '=' {
				toks = append(toks, refTok{pos: i, data: q[i : i+2], class: 'o'})
				i += 2
			} else {
				toks = append(toks, refTok{pos: i, data: q[i : i+1], class: 'o'})
				i++
			}
		case ch == '*' || ch == '+' || ch == '-' || ch == '/':
			// * + - / begin no two-character operator: *= is * and =
			toks = append(toks, refTok{pos: i, data: q[i : i+1], class: 'o'})
			i++
		case ch == '=' || ch == '&' || ch == '|' || ch == '(' || ch == ')' || ch == '[' || ch == ']' || ch == ',' || ch == ';':
			toks = append(toks, refTok{pos: i, data: q[i : i+1], class: 'o'})
			i++
		default:
			j := i
			for j < len(q) && !c16IsDelim(q[j]) {
				j++
			}
			toks = append(toks, refTok{pos: i, data: strings.ToLower(q[i:j]), class: 'w'})
			i = j
		}
	}
	if why != "" {
		return nil, false, why
	}
	return toks, true, ""
}

var c16Keywords = map[string]kvql.TokenType{
	"select": kvql.SELECT, "where": kvql.WHERE, "key": kvql.KEY, "value": kvql.VALUE, "limit": kvql.LIMIT,
	"order": kvql.ORDER, "by": kvql.BY, "asc": kvql.ASC, "desc": kvql.DESC, "true": kvql.TRUE, "false": kvql.FALSE,
	"as": kvql.AS, "group": kvql.GROUP, "in": kvql.OPERATOR, "between": kvql.OPERATOR, "put": kvql.PUT,
	"remove": kvql.REMOVE, "and": kvql.OPERATOR, "or": kvql.OPERATOR, "delete": kvql.DELETE,
}

func c16Split(q string) (toks []*kvql.Token, pan string) {
	defer func() {
		if r := recover(); r != nil {
			pan = fmt.Sprint(r)
		}
	}()
	return kvql.NewLexer(q).Split(), ""
}

func tokDump(toks []*kvql.Token) []string {
	out := make([]string, len(toks))
	for i, t := range toks {
		out[i] = fmt.Sprintf("{tp:%s data:%q pos:%d}", kvql.TokenTypeToString[t.Tp], t.Data, t.Pos)
	}
	return out
}

func refDump(toks []refTok) []string {
	out := make([]string, len(toks))
	for i, t := range toks {
		out[i] = fmt.Sprintf("{%c data:%q pos:%d}", t.class, t.Data(), t.pos)
	}
	return out
}

func (t refTok) Data() string { return t.data }

// c16Truth checks one string; returns "" or a violation kind.
func (c c16) judge(ctx *rt.Ctx, q string, fromStream bool) {
	rec := ctx.Rec
	toks, pan := c16Split(q)
	rec.Eval(1)
	if pan != "" {
		ctx.Violation("lexer-panic", "Split panics", func() rt.D { return rt.D{"query": q, "panic": pan} })
		return
	}
	ref, judged, why := refTokenize(q)
	if !judged && why == "unterminated quote" {
		// no token is a "quoted literal" there; nothing the property says applies
		rec.NotJudged(why)
		return
	}
	// (1) token truth on every remaining string
	end := 0
	for i, t := range toks {
		bad := ""
		span := len(t.Data)
		switch {
		case t.Pos < 0 || t.Pos >= len(q):
			bad = "offset outside the query"
		case t.Tp == kvql.STRING || (t.Tp == kvql.NAME && q[t.Pos] == '`'):
			qc := q[t.Pos]
			span = len(t.Data) + 2
			rec.Inc("quoted_tokens_seen")
			if t.Tp == kvql.STRING && qc != '\'' && qc != '"' {
				bad = "quoted literal's offset is not at its opening quote"
			} else if t.Pos+1+len(t.Data) >= len(q) {
				bad = "quoted literal runs past the end of the query"
			} else if q[t.Pos+1:t.Pos+1+len(t.Data)] != t.Data {
				bad = "quoted literal content differs from the query bytes"
			} else if q[t.Pos+1+len(t.Data)] != qc {
				bad = "quoted literal is not followed by its closing quote (truncated or merged)"
			} else if strings.IndexByte(t.Data, qc) >= 0 {
				bad = "quoted literal contains its own quote character (merged)"
			}
		case t.Tp == kvql.OPERATOR && !isWordOp(t.Data), t.Tp == kvql.LPAREN, t.Tp == kvql.RPAREN, t.Tp == kvql.LBRACK, t.Tp == kvql.RBRACK, t.Tp == kvql.SEP, t.Tp == kvql.SEMI:
			if t.Pos+len(t.Data) > len(q) || q[t.Pos:t.Pos+len(t.Data)] != t.Data {
				bad = "operator text differs from the query bytes at its offset"
			}
			if len(t.Data) == 2 {
				rec.Inc("twochar_ops_seen")
			}
		default: // word / keyword / number
			if strings.ContainsRune(t.Data, utf8.RuneError) && !utf8.ValidString(q) {
				// case folding of a byte that is not valid UTF-8 replaces it (U+FFFD): what the
				// folded text of such a word should be is not defined
				rec.NotJudged("word containing a byte that is not valid UTF-8 (case folding replaces it)")
				return
			}
			if t.Pos+len(t.Data) > len(q) || strings.ToLower(q[t.Pos:t.Pos+len(t.Data)]) != t.Data {
				bad = "word text differs from the (case-folded) query bytes at its offset"
			} else {
				for k := 0; k < len(t.Data); k++ {
					if c16IsDelim(t.Data[k]) {
						bad = "word token contains a delimiter character (merged with a neighbour)"
						break
					}
				}
				if bad == "" {
					if kw, ok := c16Keywords[t.Data]; ok && t.Tp != kw {
						bad = "keyword has the wrong token kind"
					}
				}
			}
		}
		if bad == "" && t.Pos < end {
			bad = "token overlaps the previous token (offsets not increasing)"
		}
		if bad == "" && i > 0 {
			p := toks[i-1]
			if len(p.Data) == 1 && len(t.Data) == 1 && p.Tp == kvql.OPERATOR && t.Tp == kvql.OPERATOR && t.Pos == p.Pos+1 && t.Data == "=" && strings.Contains("^~!<>", p.Data) {
				bad = "two-character operator returned as two one-character tokens"
			}
		}
		if bad != "" {
			ctx.Violation("token-truth", bad, func() rt.D { return rt.D{"query": q, "token_index": i, "tokens": tokDump(toks)} })
			return
		}
		end = t.Pos + span
	}
	// (2) completeness against the reference tokenizer
	if !judged {
		rec.NotJudged(why)
		return
	}
	rec.Inc("judged_strings")
	if len(ref) >= 2 || strings.ContainsAny(q, "'\"`") {
		if fromStream {
			rec.DistinctS(q)
		} else {
			rec.DistinctN(1)
		}
	}
	for i := 0; i+1 < len(ref); i++ {
		a, b := ref[i], ref[i+1]
		if (a.class == 'w' && (b.class == 'q' || b.class == 'n') && b.pos == a.pos+len(a.data)) ||
			((a.class == 'q' || a.class == 'n') && b.class == 'w' && b.pos == a.pos+len(a.data)+2) {
			rec.Inc("adjacent_word_quote")
		}
	}
	mismatch := ""
	if len(ref) != len(toks) {
		mismatch = fmt.Sprintf("token count %d, reference %d", len(toks), len(ref))
	} else {
		for i := range ref {
			t, r := toks[i], ref[i]
			cl := byte('w')
			switch {
			case t.Tp == kvql.STRING:
				cl = 'q'
			case t.Tp == kvql.NAME && t.Pos < len(q) && q[t.Pos] == '`':
				cl = 'n'
			case (t.Tp == kvql.OPERATOR && !isWordOp(t.Data)) || t.Tp == kvql.LPAREN || t.Tp == kvql.RPAREN || t.Tp == kvql.LBRACK || t.Tp == kvql.RBRACK || t.Tp == kvql.SEP || t.Tp == kvql.SEMI:
				cl = 'o'
			}
			if t.Pos != r.pos || t.Data != r.data || cl != r.class {
				mismatch = fmt.Sprintf("token %d is {%c %q @%d}, reference {%c %q @%d}", i, cl, t.Data, t.Pos, r.class, r.data, r.pos)
				break
			}
		}
	}
	if mismatch != "" {
		ctx.Violation("reference-tokenizer", c16Cluster(q, ref, toks), func() rt.D {
			return rt.D{"query": q, "mismatch": mismatch, "tokens": tokDump(toks), "reference": refDump(ref)}
		})
	}
}

func isWordOp(d string) bool {
	return d == "in" || d == "between" || d == "and" || d == "or"
}

// c16Cluster abstracts a failing string to the adjacency around the first
// expected token that is missing or different.
func c16Cluster(q string, ref []refTok, toks []*kvql.Token) string {
	cls := func(r refTok) string {
		switch r.class {
		case 'w':
			return "word"
		case 'q', 'n':
			return "quoted"
		}
		return "op"
	}
	endOf := func(r refTok) int {
		if r.class == 'q' || r.class == 'n' {
			return r.pos + len(r.data) + 2
		}
		return r.pos + len(r.data)
	}
	i := 0
	for i < len(ref) && i < len(toks) && toks[i].Pos == ref[i].pos && toks[i].Data == ref[i].data {
		i++
	}
	if i >= len(ref) {
		return "extra token after the expected ones"
	}
	desc := "expected " + cls(ref[i]) + " token missing or different"
	if i > 0 {
		adj := "after blank"
		if endOf(ref[i-1]) == ref[i].pos {
			adj = "directly after"
		}
		desc += ", " + adj + " a " + cls(ref[i-1])
	} else {
		desc += ", first token"
	}
	if i+1 < len(ref) {
		adj := "blank then"
		if endOf(ref[i]) == ref[i+1].pos {
			adj = "directly followed by"
		}
		desc += ", " + adj + " a " + cls(ref[i+1])
	}
	return desc
}

// ---- enumeration

func (c c16) Run(ctx *rt.Ctx) {
	idx := ctx.Case
	for _, sp := range c16Spaces(ctx.Tier) {
		n := ipow(len(sp.alpha), sp.prefix) + 1
		if idx < n {
			c.runBlock(ctx, sp, idx)
			return
		}
		idx -= n
	}
	c.runStreams(ctx, idx)
}

func (c c16) runBlock(ctx *rt.Ctx, sp c16Space, idx int) {
	k := len(sp.alpha)
	buf := make([]byte, 0, sp.maxLen)
	count := int64(0)
	var rec func(depth, max int)
	rec = func(depth, max int) {
		c.judge(ctx, string(buf), false)
		count++
		if depth == max {
			return
		}
		for _, ch := range sp.alpha {
			buf = append(buf, ch)
			rec(depth+1, max)
			buf = buf[:len(buf)-1]
		}
	}
	if idx == ipow(k, sp.prefix) {
		// all strings shorter than the prefix length
		rec(0, sp.prefix-1)
	} else {
		x := idx
		for i := 0; i < sp.prefix; i++ {
			buf = append(buf, sp.alpha[x%k])
			x /= k
		}
		rec(sp.prefix, sp.maxLen)
	}
	ctx.Rec.Count("enumerated_strings", count)
	if idx%97 == 0 {
		q := string(append([]byte(nil), buf...)) + "a'B'<="
		if len(q) > sp.maxLen {
			q = q[:sp.maxLen]
		}
		toks, _ := c16Split(q)
		ctx.Rec.Sample(map[string]any{"string": q, "tokens": tokDump(toks)})
	}
}

// ---- spacing law on token streams

type c16Tok struct {
	text  string // as rendered
	data  string // expected Data
	class byte
}

var c16Vocab = func() []c16Tok {
	var v []c16Tok
	for _, w := range []string{"select", "WHERE", "Key", "value", "limit", "order", "by", "asc", "DESC", "true", "false", "as", "group", "in", "BETWEEN", "put", "remove", "and", "OR", "delete",
		"a", "b1", "foo_bar", "Upper", "x", "1", "42", "007", "1.5", "0.25", "k.v",
		"LongFieldName", "L2_Distance", "COSINE_DISTANCE", "ValueAsInt9", "12345678901", "a\\b", "na\xc3\xafve", "\xc3\xa0la", "tr\xc4\x85ba"} {
		v = append(v, c16Tok{w, strings.ToLower(w), 'w'})
	}
	for _, s := range []string{"'x'", "\"y z\"", "'it\"s'", "\"a'b\"", "''", "' '", "'a,b'", "'sel ect'", "'(1+2)'", "\"`\"", "'AND'", "'k1'", "'dir\\'", "\"\\\\\"", "'a\\b'", "'\xc3\xa9'", "\"\xe6\x97\xa5\xe6\x9c\xac x\"", "' x '", "'\xc3\xa0 \xc4\x85'"} {
		v = append(v, c16Tok{s, s[1 : len(s)-1], 'q'})
	}
	for _, s := range []string{"`n`", "`a b`", "`X'y`"} {
		v = append(v, c16Tok{s, s[1 : len(s)-1], 'n'})
	}
	for _, o := range []string{"=", "!=", "^=", "~=", ">", ">=", "<", "<=", "+", "-", "*", "/", "!", "&", "|", "(", ")", "[", "]", ",", ";"} {
		v = append(v, c16Tok{o, o, 'o'})
	}
	return v
}()

const c16NWords = 40
const c16NQuoted = 22

// blankMandatory says whether a blank is required between two adjacent tokens
// for them to remain two tokens (two words; or operator characters that fuse).
func c16BlankMandatory(a, b c16Tok) bool {
	if a.class == 'w' && b.class == 'w' {
		return true
	}
	if a.class == 'o' && b.class == 'o' && b.text[0] == '=' {
		last := a.text[len(a.text)-1]
		if strings.IndexByte("^~!<>", last) >= 0 {
			return true
		}
	}
	return false
}

func (c c16) runStreams(ctx *rt.Ctx, block int) {
	r := ctx.R
	for s := 0; s < 100; s++ {
		n := r.Range(2, 12)
		toks := make([]c16Tok, n)
		for i := range toks {
			toks[i] = c16Vocab[r.Intn(len(c16Vocab))]
			// bias towards word/quote adjacency
			if i > 0 && r.Chance(1, 4) {
				if toks[i-1].class == 'w' {
					toks[i] = c16Vocab[c16NWords+r.Intn(c16NQuoted)]
				} else if toks[i-1].class == 'q' || toks[i-1].class == 'n' {
					toks[i] = c16Vocab[r.Intn(c16NWords)]
				}
			}
		}
		gaps := n - 1
		limit := 9
		if !ctx.Thorough() {
			limit = 7
		}
		if gaps <= limit {
			for mask := 0; mask < 1<<gaps; mask++ {
				c.renderAndCheck(ctx, toks, uint64(mask))
			}
		} else {
			for k := 0; k < 128; k++ {
				c.renderAndCheck(ctx, toks, r.U64())
			}
		}
	}
}

func (c c16) renderAndCheck(ctx *rt.Ctx, toks []c16Tok, mask uint64) {
	var b strings.Builder
	pos := make([]int, len(toks))
	for i, t := range toks {
		if i > 0 {
			if c16BlankMandatory(toks[i-1], t) || mask&(1<<(i-1)) != 0 {
				b.WriteByte(' ')
				if mask&(1<<(i-1)) != 0 && mask&(1<<((i+20)%63)) != 0 {
					b.WriteByte(' ')
				}
			}
		}
		pos[i] = b.Len()
		b.WriteString(t.text)
	}
	q := b.String()
	ctx.Rec.Inc("stream_renderings")
	got, pan := c16Split(q)
	ctx.Rec.Eval(1)
	if pan != "" {
		ctx.Violation("lexer-panic", "Split panics", func() rt.D { return rt.D{"query": q, "panic": pan} })
		return
	}
	ctx.Rec.DistinctS(q)
	bad := ""
	if len(got) != len(toks) {
		bad = fmt.Sprintf("token count %d, generating stream has %d", len(got), len(toks))
	} else {
		for i, t := range toks {
			g := got[i]
			cl := byte('w')
			switch {
			case g.Tp == kvql.STRING:
				cl = 'q'
			case g.Tp == kvql.NAME && g.Pos < len(q) && q[g.Pos] == '`':
				cl = 'n'
			case (g.Tp == kvql.OPERATOR && !isWordOp(g.Data)) || g.Tp == kvql.LPAREN || g.Tp == kvql.RPAREN || g.Tp == kvql.LBRACK || g.Tp == kvql.RBRACK || g.Tp == kvql.SEP || g.Tp == kvql.SEMI:
				cl = 'o'
			}
			if g.Data != t.data || cl != t.class || g.Pos != pos[i] {
				bad = fmt.Sprintf("token %d is {%c %q @%d}, stream has {%c %q @%d}", i, cl, g.Data, g.Pos, t.class, t.data, pos[i])
				break
			}
		}
	}
	if bad != "" {
		exp := make([]string, len(toks))
		for i, t := range toks {
			exp[i] = t.text
		}
		ref, _, _ := refTokenize(q)
		ctx.Violation("spacing-law", c16Cluster(q, ref, got), func() rt.D { return rt.D{"query": q, "mismatch": bad, "stream": exp, "tokens": tokDump(got)} })
	}
	if mask == 5 {
		ctx.Rec.Sample(map[string]any{"stream_rendering": q, "tokens": len(got)})
	}
}

func (c c16) RunWitness(ctx *rt.Ctx, w map[string]any) {
	if q, ok := w["query"].(string); ok {
		c.judge(ctx, q, true)
	}
}
