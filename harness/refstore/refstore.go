// Package refstore is the reference Storage the checks run kvql against. It is
// also the main runtime monitor: every call crossing the library's only I/O
// boundary is appended to an event log, returned slices are fresh copies, and
// the store can inject a fault at the i-th call, enforce a call budget and
// yield/sleep at call entry (for schedule exploration).
package refstore

import (
	"bytes"
	"errors"
	"fmt"
	"io"
	"runtime"
	"sort"
	"sync"
	"sync/atomic"
	"time"

	kvql "github.com/c4pt0r/kvql"
)

var ErrInjected = errors.New("refstore: injected storage fault")

// ErrInjectedEOF is an injected fault that is ErrInjected and also is io.EOF (errors.Is holds
// for both): a storage may well report "unexpected end of stream" with io.EOF in its chain, and
// a library must not take that for the end of the data.
// RunawayAfterFault: calls answered with the injected error before the store ends the run by panicking
const RunawayAfterFault = 5000

var ErrRunaway = errors.New("refstore: storage polled 5000 times after a permanent fault")

var ErrInjectedEOF error = eofFault{}

type eofFault struct{}

func (eofFault) Error() string   { return "refstore: injected storage fault (connection closed: EOF)" }
func (eofFault) Unwrap() []error { return []error{ErrInjected, io.EOF} }

var ErrBudget = errors.New("refstore: storage call budget exceeded")

type Op byte

const (
	OpGet Op = iota
	OpPut
	OpBatchPut
	OpDelete
	OpBatchDelete
	OpCursor
	OpSeek
	OpNext
)

var opNames = [...]string{"Get", "Put", "BatchPut", "Delete", "BatchDelete", "Cursor", "Seek", "Next"}

func (o Op) String() string { return opNames[o] }
func (o Op) Mutating() bool {
	return o == OpPut || o == OpBatchPut || o == OpDelete || o == OpBatchDelete
}

type Event struct {
	Seq  int      `json:"seq"`
	Op   Op       `json:"-"`
	OpS  string   `json:"op"`
	Cur  int      `json:"cur,omitempty"`
	Key  string   `json:"key,omitempty"`  // Get/Put/Delete/Seek argument; Next: returned key
	Keys []string `json:"keys,omitempty"` // BatchPut / BatchDelete keys
	Vals []string `json:"vals,omitempty"` // Put / BatchPut values
	Res  string   `json:"res"`            // hit | miss | ok | eof | err | after-fault | budget
}

type Pair struct{ K, V string }

type Store struct {
	mu    sync.Mutex
	keys  []string // sorted
	vals  map[string]string
	log   []Event
	nCur  int
	calls int

	// fault injection / budget
	FailAt      int   // index of the call to fail; -1 = none
	Faulted     bool  // the fault fired
	AfterFault  int   // calls attempted after the fault fired
	Transient   bool  // only the FailAt call fails; later calls succeed (still counted in AfterFault)
	FaultErr    error // the error the FailAt call returns (nil = ErrInjected)
	MaxCalls    int   // 0 = unlimited
	OverBudget  bool
	NoLog       bool // do not keep events (C19 stress)
	JitterSeed  uint64
	Jitter      bool
	InFlight    *int64 // optional shared counters for C19
	MaxInFlight *int64
	OrderHash   *uint64
	Tag         uint64

	// Arena (on by default): hand keys and values out as slices of buffers the store keeps (the same backing
	// array for every caller, spare capacity behind the data filled with a canary), the way an
	// in-memory engine may return its own memory. A library that appends to or writes into what
	// it was handed damages them: ArenaDamage reports it (and the race detector sees the writes).
	Arena bool
	arena map[string]*arenaBuf
}

type arenaBuf struct {
	want string
	buf  []byte
}

const arenaSpare = 24
const arenaCanary = 0xA5

// hand returns the arena slice for a string (caller holds s.mu).
func (s *Store) hand(kind byte, str string) []byte {
	if !s.Arena {
		return []byte(str)
	}
	if s.arena == nil {
		s.arena = map[string]*arenaBuf{}
	}
	id := string(kind) + str
	a, ok := s.arena[id]
	if !ok {
		a = &arenaBuf{want: str, buf: make([]byte, len(str)+arenaSpare)}
		copy(a.buf, str)
		for i := len(str); i < len(a.buf); i++ {
			a.buf[i] = arenaCanary
		}
		s.arena[id] = a
	}
	return a.buf[:len(str)]
}

// ArenaDamage lists the handed-out buffers whose data or canary bytes were modified.
func (s *Store) ArenaDamage() []string {
	s.mu.Lock()
	defer s.mu.Unlock()
	var out []string
	for _, a := range s.arena {
		bad := string(a.buf[:len(a.want)]) != a.want
		for i := len(a.want); i < len(a.buf) && !bad; i++ {
			bad = a.buf[i] != arenaCanary
		}
		if bad {
			out = append(out, fmt.Sprintf("%q is now %q", a.want, string(a.buf)))
		}
	}
	sort.Strings(out)
	return out
}

func New(pairs []Pair) *Store {
	s := &Store{vals: map[string]string{}, FailAt: -1, Arena: true}
	for _, p := range pairs {
		if _, ok := s.vals[p.K]; !ok {
			s.keys = append(s.keys, p.K)
		}
		s.vals[p.K] = p.V
	}
	sort.Strings(s.keys)
	return s
}

func (s *Store) Clone() *Store {
	s.mu.Lock()
	defer s.mu.Unlock()
	n := &Store{vals: make(map[string]string, len(s.vals)), FailAt: -1, Arena: s.Arena}
	n.keys = append([]string(nil), s.keys...)
	for k, v := range s.vals {
		n.vals[k] = v
	}
	return n
}

func (s *Store) Pairs() []Pair {
	s.mu.Lock()
	defer s.mu.Unlock()
	out := make([]Pair, len(s.keys))
	for i, k := range s.keys {
		out[i] = Pair{k, s.vals[k]}
	}
	return out
}

func (s *Store) Len() int {
	s.mu.Lock()
	defer s.mu.Unlock()
	return len(s.keys)
}

func (s *Store) Log() []Event {
	s.mu.Lock()
	defer s.mu.Unlock()
	return append([]Event(nil), s.log...)
}

func (s *Store) ResetLog() {
	s.mu.Lock()
	defer s.mu.Unlock()
	s.log = nil
	s.calls = 0
	s.Faulted = false
	s.AfterFault = 0
	s.OverBudget = false
}

func (s *Store) Calls() int {
	s.mu.Lock()
	defer s.mu.Unlock()
	return s.calls
}

func (s *Store) Equal(o []Pair) bool {
	p := s.Pairs()
	if len(p) != len(o) {
		return false
	}
	for i := range p {
		if p[i] != o[i] {
			return false
		}
	}
	return true
}

// enter is called with the lock held at the start of every storage call. It
// returns a non-nil error if the call must fail.
func (s *Store) enter(op Op) (int, error) {
	idx := s.calls
	s.calls++
	if s.Faulted {
		s.AfterFault++
		if !s.Transient && s.AfterFault > RunawayAfterFault {
			// a caller that goes on polling a storage that fails every call (and ignores the
			// errors) never ends: one call after the fault is already the monitors' finding,
			// this only ends the run
			panic(ErrRunaway)
		}
		if s.Transient {
			return idx, nil // the fault was a single failing call; later calls are served (and counted)
		}
		return idx, ErrInjected
	}
	if s.FailAt >= 0 && idx == s.FailAt {
		s.Faulted = true
		if s.FaultErr != nil {
			return idx, s.FaultErr
		}
		return idx, ErrInjected
	}
	if s.MaxCalls > 0 && s.calls > s.MaxCalls {
		s.OverBudget = true
		return idx, ErrBudget
	}
	return idx, nil
}

func (s *Store) rec(e Event) {
	if s.NoLog {
		return
	}
	e.Seq = len(s.log)
	e.OpS = e.Op.String()
	s.log = append(s.log, e)
}

func errRes(s *Store, err error, first bool) string {
	if errors.Is(err, ErrBudget) {
		return "budget"
	}
	if first {
		return "err"
	}
	return "after-fault"
}

// jitter runs outside the lock: yields or sleeps a few microseconds so that
// goroutines interleave at the storage boundary (where a real store blocks).
func (s *Store) jitter(tag uint64) {
	if s.InFlight != nil {
		n := atomic.AddInt64(s.InFlight, 1)
		for {
			m := atomic.LoadInt64(s.MaxInFlight)
			if n <= m || atomic.CompareAndSwapInt64(s.MaxInFlight, m, n) {
				break
			}
		}
		defer atomic.AddInt64(s.InFlight, -1)
	}
	if !s.Jitter {
		return
	}
	x := atomic.AddUint64(&s.JitterSeed, 0x9e3779b97f4a7c15)
	x ^= x >> 31
	x *= 0xbf58476d1ce4e5b9
	x ^= x >> 29
	switch x % 8 {
	case 0, 1, 2:
		runtime.Gosched()
	case 3:
		time.Sleep(time.Duration(x>>8%50) * time.Microsecond)
	}
	if s.OrderHash != nil {
		// fold the tag of the caller into a global order hash: distinct
		// global orders of storage events give distinct hashes
		for {
			o := atomic.LoadUint64(s.OrderHash)
			n := (o ^ tag) * 0x100000001b3
			if atomic.CompareAndSwapUint64(s.OrderHash, o, n) {
				break
			}
		}
	}
}

func (s *Store) Get(key []byte) ([]byte, error) {
	s.jitter(s.Tag)
	return s.getCore(key)
}

func (v *View) Get(key []byte) ([]byte, error) {
	v.s.jitter(v.tag)
	return v.s.getCore(key)
}

func (s *Store) getCore(key []byte) ([]byte, error) {
	s.mu.Lock()
	defer s.mu.Unlock()
	first := !s.Faulted
	if _, err := s.enter(OpGet); err != nil {
		s.rec(Event{Op: OpGet, Key: string(key), Res: errRes(s, err, first)})
		return nil, err
	}
	v, ok := s.vals[string(key)]
	if !ok {
		s.rec(Event{Op: OpGet, Key: string(key), Res: "miss"})
		return nil, nil
	}
	s.rec(Event{Op: OpGet, Key: string(key), Res: "hit"})
	if s.Arena {
		return s.hand('v', v), nil
	}
	out := make([]byte, len(v))
	copy(out, v)
	return out, nil
}

func (s *Store) putLocked(k, v string) {
	if _, ok := s.vals[k]; !ok {
		i := sort.SearchStrings(s.keys, k)
		s.keys = append(s.keys, "")
		copy(s.keys[i+1:], s.keys[i:])
		s.keys[i] = k
	}
	s.vals[k] = v
}

func (s *Store) delLocked(k string) {
	if _, ok := s.vals[k]; !ok {
		return
	}
	delete(s.vals, k)
	i := sort.SearchStrings(s.keys, k)
	s.keys = append(s.keys[:i], s.keys[i+1:]...)
}

func (s *Store) Put(key []byte, value []byte) error {
	s.jitter(s.Tag)
	return s.putCore(key, value)
}

func (v *View) Put(key []byte, value []byte) error {
	v.s.jitter(v.tag)
	return v.s.putCore(key, value)
}

func (s *Store) putCore(key []byte, value []byte) error {
	s.mu.Lock()
	defer s.mu.Unlock()
	first := !s.Faulted
	if _, err := s.enter(OpPut); err != nil {
		s.rec(Event{Op: OpPut, Key: string(key), Vals: []string{string(value)}, Res: errRes(s, err, first)})
		return err
	}
	s.putLocked(string(key), string(value))
	s.rec(Event{Op: OpPut, Key: string(key), Vals: []string{string(value)}, Res: "ok"})
	return nil
}

func (s *Store) BatchPut(kvs []kvql.KVPair) error {
	s.jitter(s.Tag)
	return s.batchPutCore(kvs)
}

func (v *View) BatchPut(kvs []kvql.KVPair) error {
	v.s.jitter(v.tag)
	return v.s.batchPutCore(kvs)
}

func (s *Store) batchPutCore(kvs []kvql.KVPair) error {
	s.mu.Lock()
	defer s.mu.Unlock()
	keys := make([]string, len(kvs))
	vals := make([]string, len(kvs))
	for i, kv := range kvs {
		keys[i] = string(kv.Key)
		vals[i] = string(kv.Value)
	}
	first := !s.Faulted
	if _, err := s.enter(OpBatchPut); err != nil {
		s.rec(Event{Op: OpBatchPut, Keys: keys, Vals: vals, Res: errRes(s, err, first)})
		return err
	}
	for i := range keys {
		s.putLocked(keys[i], vals[i])
	}
	s.rec(Event{Op: OpBatchPut, Keys: keys, Vals: vals, Res: "ok"})
	return nil
}

func (s *Store) Delete(key []byte) error {
	s.jitter(s.Tag)
	return s.deleteCore(key)
}

func (v *View) Delete(key []byte) error {
	v.s.jitter(v.tag)
	return v.s.deleteCore(key)
}

func (s *Store) deleteCore(key []byte) error {
	s.mu.Lock()
	defer s.mu.Unlock()
	first := !s.Faulted
	if _, err := s.enter(OpDelete); err != nil {
		s.rec(Event{Op: OpDelete, Key: string(key), Res: errRes(s, err, first)})
		return err
	}
	s.delLocked(string(key))
	s.rec(Event{Op: OpDelete, Key: string(key), Res: "ok"})
	return nil
}

func (s *Store) BatchDelete(keys [][]byte) error {
	s.jitter(s.Tag)
	return s.batchDeleteCore(keys)
}

func (v *View) BatchDelete(keys [][]byte) error {
	v.s.jitter(v.tag)
	return v.s.batchDeleteCore(keys)
}

func (s *Store) batchDeleteCore(keys [][]byte) error {
	s.mu.Lock()
	defer s.mu.Unlock()
	ks := make([]string, len(keys))
	for i, k := range keys {
		ks[i] = string(k)
	}
	first := !s.Faulted
	if _, err := s.enter(OpBatchDelete); err != nil {
		s.rec(Event{Op: OpBatchDelete, Keys: ks, Res: errRes(s, err, first)})
		return err
	}
	for _, k := range ks {
		s.delLocked(k)
	}
	s.rec(Event{Op: OpBatchDelete, Keys: ks, Res: "ok"})
	return nil
}

// View is a handle on a shared Store that carries its own tag, so that the
// global order hash distinguishes which caller issued a storage event.
type View struct {
	s   *Store
	tag uint64
}

func (s *Store) View(tag uint64) *View { return &View{s: s, tag: tag} }

type cursor struct {
	s    *Store
	tag  uint64
	id   int
	keys []string
	vals []string
	pos  int
}

func (s *Store) Cursor() (kvql.Cursor, error) {
	s.jitter(s.Tag)
	return s.cursorCore(s.Tag)
}

func (v *View) Cursor() (kvql.Cursor, error) {
	v.s.jitter(v.tag)
	return v.s.cursorCore(v.tag)
}

func (s *Store) cursorCore(tag uint64) (kvql.Cursor, error) {
	s.mu.Lock()
	defer s.mu.Unlock()
	s.nCur++
	id := s.nCur
	first := !s.Faulted
	if _, err := s.enter(OpCursor); err != nil {
		s.rec(Event{Op: OpCursor, Cur: id, Res: errRes(s, err, first)})
		return nil, err
	}
	c := &cursor{s: s, id: id, tag: tag}
	c.keys = append([]string(nil), s.keys...)
	c.vals = make([]string, len(c.keys))
	for i, k := range c.keys {
		c.vals[i] = s.vals[k]
	}
	s.rec(Event{Op: OpCursor, Cur: id, Res: "ok"})
	return c, nil
}

func (c *cursor) Seek(prefix []byte) error {
	s := c.s
	s.jitter(c.tag)
	s.mu.Lock()
	defer s.mu.Unlock()
	first := !s.Faulted
	if _, err := s.enter(OpSeek); err != nil {
		s.rec(Event{Op: OpSeek, Cur: c.id, Key: string(prefix), Res: errRes(s, err, first)})
		return err
	}
	c.pos = sort.Search(len(c.keys), func(i int) bool { return bytes.Compare([]byte(c.keys[i]), prefix) >= 0 })
	s.rec(Event{Op: OpSeek, Cur: c.id, Key: string(prefix), Res: "ok"})
	return nil
}

func (c *cursor) Next() ([]byte, []byte, error) {
	s := c.s
	s.jitter(c.tag)
	s.mu.Lock()
	defer s.mu.Unlock()
	first := !s.Faulted
	if _, err := s.enter(OpNext); err != nil {
		s.rec(Event{Op: OpNext, Cur: c.id, Res: errRes(s, err, first)})
		return nil, nil, err
	}
	if c.pos >= len(c.keys) {
		s.rec(Event{Op: OpNext, Cur: c.id, Res: "eof"})
		return nil, nil, nil
	}
	k, v := c.keys[c.pos], c.vals[c.pos]
	c.pos++
	s.rec(Event{Op: OpNext, Cur: c.id, Key: k, Res: "hit"})
	return s.hand('k', k), s.hand('v', v), nil
}

// FormatLog renders an event log compactly for replay output.
func FormatLog(log []Event) []string {
	out := make([]string, 0, len(log))
	for _, e := range log {
		switch e.Op {
		case OpBatchPut, OpBatchDelete:
			out = append(out, fmt.Sprintf("%d %s %q -> %s", e.Seq, e.OpS, e.Keys, e.Res))
		case OpCursor:
			out = append(out, fmt.Sprintf("%d Cursor#%d -> %s", e.Seq, e.Cur, e.Res))
		case OpSeek, OpNext:
			out = append(out, fmt.Sprintf("%d %s#%d %q -> %s", e.Seq, e.OpS, e.Cur, e.Key, e.Res))
		default:
			out = append(out, fmt.Sprintf("%d %s %q -> %s", e.Seq, e.OpS, e.Key, e.Res))
		}
	}
	return out
}
