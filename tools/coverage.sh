#!/bin/bash
# Statement coverage of the library under test reached by the quick tier of every check (what the
# monitors actually drive), per check and merged: .work/cover/summary.txt and .work/cover/func.txt.
# usage: tools/coverage.sh [IDs...]      (scratch evidence/replay dirs; /verif/evidence is not touched)
cd "$(dirname "$0")/.." || exit 2
V=$(pwd); W=$V/.work/cover; REPO=${VERIF_REPO:-/repo}
export GOFLAGS=-mod=mod GOPROXY=off GOSUMDB=off GOTOOLCHAIN=local
IDS=${*:-C01 C02 C03 C04 C05 C06 C07 C08 C09 C10 C11 C12 C13 C14 C15 C16 C17 C18 C19}
rm -rf "$W"; mkdir -p "$W/bin" "$W/scratch"
sed "s#=> /repo#=> $REPO#" harness/go.mod > "$W/go.mod"; cp "$REPO/go.sum" "$W/go.sum" 2>/dev/null || cp harness/go.sum "$W/go.sum"
( cd harness && go build -cover -coverpkg=github.com/c4pt0r/kvql/...,kvqlverif/cmd/kvcheck -tags verif -modfile="$W/go.mod" -o "$W/bin/kvcheck-cover" ./cmd/kvcheck ) || exit 2
for id in $IDS; do
  mkdir -p "$W/$id"
  GOCOVERDIR="$W/$id" VERIF_DIR="$V" VERIF_NO_FUZZ=1 VERIF_WORK_SUFFIX=.cover VERIF_EVIDENCE_DIR="$W/scratch" VERIF_REPLAY_DIR="$W/scratch" "$W/bin/kvcheck-cover" run -prop "$id" -tier quick > "$W/$id.out" 2>&1
  printf '%s\t%s\n' "$id" "$(go tool covdata percent -i="$W/$id" 2>/dev/null | awk '{print $NF}' | tail -1)"
done | tee "$W/summary.txt"
dirs=$(for id in $IDS; do printf '%s,' "$W/$id"; done); dirs=${dirs%,}
go tool covdata textfmt -i="$dirs" -o="$W/merged.txt" && grep -v "kvqlverif/" "$W/merged.txt" > "$W/lib.txt"; ( cd "$REPO" && go tool cover -func="$W/lib.txt" ) > "$W/func.txt"
tail -1 "$W/func.txt" | tee -a "$W/summary.txt"
