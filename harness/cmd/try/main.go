package main

import (
	"fmt"
	"os"

	"kvqlverif/drive"
	"kvqlverif/refstore"
)

func main() {
	ps := []refstore.Pair{{K: "a", V: "1"}, {K: "m", V: "2"}, {K: "n", V: "3"}, {K: "z", V: "4"}}
	for _, q := range os.Args[1:] {
		for _, b := range []bool{false, true} {
			st := refstore.New(ps)
			o := drive.Run(q, st, drive.Mode{Batch: b, Size: 3, Cache: true})
			fmt.Printf("%s batch=%v status=%s rows=%v explain=%v err=%v\n", q, b, o.Status(), o.Rows, o.Explain, o.Err())
		}
	}
}
