package gen

import (
	"sort"
	"strconv"
	"strings"

	"kvqlverif/rt"
)

// PredGen generates well-typed trees of the documented core language (what the
// checker accepts today is stated in DESIGN Appendix E).
type PredGen struct {
	R         *rt.Rand
	KeyLits   []string // literals for comparisons with key
	ValLits   []string // literals for comparisons with value
	IntVals   bool     // stored values are plain integers
	FltVals   bool     // stored values are plain decimals
	Avoid     map[string]bool
	FloatEq   bool // allow = / != between float operands
	NoRegex   bool
	NoKeyPin  bool // do not generate key-pinning atoms (opaque predicates only)
	PadInts   bool // integer literals are written with a leading zero (010 is ten)
	ForceKind int  // > 0: the first atom generated is of this kind (12..19: the key-region constructs)
}

var cmpS = []string{"=", "!=", "^=", "~=", ">", ">=", "<", "<="}
var cmpN = []string{"=", "!=", ">", ">=", "<", "<="}
var rePool = []string{"^a", "b$", "^k[0-9]+$", "a.*b", "[0-9]", "^$", "x|y", "^.$", "1"}
var floatLits = []string{"0.5", "1.5", "2.0", "0.25", "2.5", "10.0", "3.75"}

func (g *PredGen) lit(pool []string) *Node {
	if len(pool) == 0 {
		return Str("a")
	}
	return Str(pool[g.R.Intn(len(pool))])
}

// keyPattern is an anchored regular expression built from the key literals of the store: the
// literal text after the anchor is a prefix of every match only when nothing after it can take it
// back (a quantifier that allows zero repetitions, an alternation).
func (g *PredGen) keyPattern() string {
	plain := func(s string) bool {
		if s == "" {
			return false
		}
		for i := 0; i < len(s); i++ {
			c := s[i]
			if !(c >= 'a' && c <= 'z' || c >= 'A' && c <= 'Z' || c >= '0' && c <= '9') {
				return false
			}
		}
		return true
	}
	r := g.R
	var l, m string
	for try := 0; try < 4 && !plain(l); try++ {
		if len(g.KeyLits) == 0 {
			return ""
		}
		l = g.KeyLits[r.Intn(len(g.KeyLits))]
	}
	if !plain(l) {
		return ""
	}
	m = g.KeyLits[r.Intn(len(g.KeyLits))]
	if !plain(m) {
		m = "zz"
	}
	switch r.Intn(9) {
	case 0:
		return "^" + l
	case 1:
		return "^" + l + "*$"
	case 2:
		return "^" + l + "?"
	case 3:
		return "^" + l + "|^" + m
	case 4:
		return "^(" + l + "|" + m + ")"
	case 5:
		return "^" + l + "{0,2}"
	case 6:
		return "^" + l + "|" + m + "$"
	case 7:
		return "^" + l + "*" + m
	default:
		return "^" + l + ".*$"
	}
}

func (g *PredGen) field() (*Node, []string) {
	if g.R.Bool() {
		return Key(), g.KeyLits
	}
	return Value(), g.ValLits
}

// Str returns a text-typed expression.
func (g *PredGen) Str(depth int) *Node {
	r := g.R
	if depth <= 0 {
		switch r.Intn(3) {
		case 0:
			return Key()
		case 1:
			return Value()
		}
		return g.lit(append(append([]string{}, g.KeyLits...), g.ValLits...))
	}
	switch r.Intn(7) {
	case 0:
		return Call("upper", g.Str(depth-1))
	case 1:
		return Call("lower", g.Str(depth-1))
	case 2:
		return Bin("+", g.Str(depth-1), g.Str(depth-1))
	case 3:
		if g.IntVals {
			return Call("str", Call("int", Value()))
		}
		return Call("str", Call("strlen", g.Str(depth-1)))
	}
	return g.Str(0)
}

func (g *PredGen) intLit() *Node {
	i := int64([]int{0, 1, 2, 3, 5, 7, 10, 12, 25, 100}[g.R.Intn(10)])
	if g.PadInts && i > 5 {
		return IntPadded(i, len(strconv.FormatInt(i, 10))+1+int(i%2))
	}
	return Int(i)
}

// Num returns a number-typed expression. wantFloat steers towards floats.
func (g *PredGen) Num(depth int) *Node {
	r := g.R
	if depth <= 0 {
		switch r.Intn(5) {
		case 0, 1:
			return g.intLit()
		case 2:
			if g.IntVals {
				return Call("int", Value())
			}
			if g.FltVals {
				return Call("float", Value())
			}
			return Call("strlen", Value())
		case 3:
			return Call("strlen", Key())
		}
		if g.FltVals || r.Chance(1, 3) {
			return Float(floatLits[r.Intn(len(floatLits))])
		}
		return g.intLit()
	}
	op := []string{"+", "-", "*", "/"}[r.Intn(4)]
	l := g.Num(depth - 1)
	rr := g.Num(depth - 1)
	if op == "/" {
		// constant non-zero divisor only
		switch r.Intn(3) {
		case 0:
			rr = Int(int64([]int{1, 2, 3, 5}[r.Intn(4)]))
		case 1:
			rr = Float([]string{"0.5", "2.0", "0.25"}[r.Intn(3)])
		default:
			// a constant call whose float result is a whole number (it stays a float)
			rr = []*Node{Call("float", Int(2)), Call("float", Str("2")), Call("float", Str("4.0")), Call("float", Int(5))}[r.Intn(4)]
		}
	}
	return Bin(op, l, rr)
}

func isFloaty(n *Node) bool {
	f := false
	n.Walk(func(x *Node) {
		if x.K == KFloat || (x.K == KCall && x.Op == "float") {
			f = true
		}
	})
	return f
}

func sameField(a, b *Node) bool {
	return (a.K == KKey && b.K == KKey) || (a.K == KValue && b.K == KValue)
}

// Atom returns a Boolean atom.
func (g *PredGen) Atom(depth int) *Node {
	r := g.R
	force := g.ForceKind
	for {
		kind := r.Intn(20)
		if force > 0 {
			kind, force = force, 0 // once; if its preconditions fail, any kind will do
		}
		switch kind {
		case 19: // a lower bound at the empty literal (every key satisfies it) with a point pin
			if g.NoKeyPin || len(g.KeyLits) == 0 {
				continue
			}
			lo := Bin([]string{">=", ">"}[r.Intn(2)], Key(), Str(""))
			if r.Chance(1, 4) && !g.Avoid["literal-left-key-compare"] {
				lo = Bin([]string{"<=", "<"}[r.Intn(2)], Str(""), Key())
			}
			l := g.KeyLits[r.Intn(len(g.KeyLits))]
			var pin *Node = Bin("=", Key(), Str(l))
			if r.Bool() {
				pin = In(Key(), Str(l), Str(g.KeyLits[r.Intn(len(g.KeyLits))]))
			}
			if r.Bool() {
				return And(lo, pin)
			}
			return And(pin, lo)
		case 18: // two concatenations that start at the same field, alive at the same time
			if g.NoKeyPin {
				continue
			}
			f := Key
			if r.Chance(1, 3) {
				f = Value
			}
			sfx := []string{"a", "b", "/", ":", "#", "zz", ""}
			a, b := Bin("+", f(), Str(sfx[r.Intn(len(sfx))])), Bin("+", f(), Str(sfx[r.Intn(len(sfx))]))
			op := cmpS[r.Intn(len(cmpS))]
			if op == "~=" {
				op = "!="
			}
			if r.Chance(1, 4) {
				return Bin(op, Bin("+", Key(), Str("#")), Value())
			}
			return Bin(op, a, b)
		case 17: // BETWEEN with a literal lower bound and an upper bound computed from the pair
			if g.NoKeyPin || g.Avoid["computed-between-bound"] {
				continue
			}
			// '!' sorts below every key that begins with a letter or digit, key + 'z' above the key:
			// the clause is evaluable (lower < upper) and true on such pairs; it pins nothing
			up := []*Node{Bin("+", Key(), Str("z")), Bin("+", Bin("+", Key(), Str("y")), Str("z")), Call("lower", Bin("+", Key(), Str("~")))}[r.Intn(3)]
			return Between(Key(), Str("!"), up)
		case 16: // a key list written in descending order, all of it on one side of a key range, joined by |
			if g.NoKeyPin || len(g.KeyLits) < 4 {
				continue
			}
			ls := append([]string(nil), g.KeyLits...)
			sort.Strings(ls)
			if ls[0] == "" {
				ls = ls[1:]
			}
			if len(ls) < 4 {
				continue
			}
			i := r.Intn(len(ls) - 3)
			a, b, c2, d := ls[i], ls[i+1], ls[i+2], ls[i+3]
			var in, rng *Node
			if r.Bool() {
				in, rng = In(Key(), Str(b), Str(a)), Between(Key(), Str(c2), Str(d))
			} else {
				in, rng = In(Key(), Str(d), Str(c2)), Between(Key(), Str(a), Str(b))
			}
			if r.Chance(1, 3) {
				rng = And(Bin(">=", Key(), rng.A[1]), Bin("<=", Key(), rng.A[2]))
			}
			if r.Bool() {
				return Or(in, rng)
			}
			return Or(rng, in)
		case 15: // a prefix test joined with a one-sided range whose bound lies inside the prefix region
			if g.NoKeyPin || len(g.KeyLits) == 0 {
				continue
			}
			l := g.KeyLits[r.Intn(len(g.KeyLits))]
			if len(l) < 2 {
				continue
			}
			pre := l[:r.Range(1, len(l)-1)]
			op := []string{">", ">=", "<", "<="}[r.Intn(4)]
			a := Bin("^=", Key(), Str(pre))
			b := Bin(op, Key(), Str(l))
			if r.Chance(1, 4) && !g.Avoid["literal-left-key-compare"] {
				b = Bin(map[string]string{">": "<", ">=": "<=", "<": ">", "<=": ">="}[op], Str(l), Key())
			}
			if r.Bool() {
				a, b = b, a
			}
			if r.Chance(2, 3) {
				return Or(a, b)
			}
			return And(a, b)
		case 14: // a key list with a foreign key between two keys of one prefix, and that prefix
			if g.NoKeyPin || len(g.KeyLits) < 3 {
				continue
			}
			l1 := g.KeyLits[r.Intn(len(g.KeyLits))]
			if len(l1) < 2 {
				continue
			}
			pre := l1[:r.Range(1, len(l1)-1)]
			var same, other []string
			for _, k := range g.KeyLits {
				if k == l1 {
					continue
				}
				if strings.HasPrefix(k, pre) {
					same = append(same, k)
				} else {
					other = append(other, k)
				}
			}
			if len(same) == 0 {
				continue
			}
			foreign := "~" + pre
			if len(other) > 0 && r.Chance(2, 3) {
				foreign = other[r.Intn(len(other))]
			}
			items := []*Node{Str(l1), Str(foreign), Str(same[r.Intn(len(same))])}
			if r.Chance(1, 3) {
				items = append([]*Node{Str(foreign)}, items...)
				items = items[:3+r.Intn(2)]
			}
			if g.Avoid["in-duplicate-key"] {
				seen := map[string]bool{}
				out := items[:0]
				for _, it := range items {
					if !seen[it.S] {
						seen[it.S] = true
						out = append(out, it)
					}
				}
				items = out
			}
			a, b := In(Key(), items...), Bin("^=", Key(), Str(pre))
			if r.Bool() {
				a, b = b, a
			}
			return And(a, b)
		case 13: // two prefix tests, one prefix extending the other, in either order, joined either way
			if g.NoKeyPin || len(g.KeyLits) == 0 {
				continue
			}
			l := g.KeyLits[r.Intn(len(g.KeyLits))]
			if len(l) < 2 {
				continue
			}
			short := l[:r.Range(1, len(l)-1)]
			a, b := Bin("^=", Key(), Str(l)), Bin("^=", Key(), Str(short))
			if r.Bool() {
				a, b = b, a
			}
			if r.Bool() {
				return Or(a, b)
			}
			return And(a, b)
		case 12: // two key ranges that meet in exactly one key
			if g.NoKeyPin || len(g.KeyLits) == 0 {
				continue
			}
			l := g.KeyLits[r.Intn(len(g.KeyLits))]
			lo, hi := g.KeyLits[r.Intn(len(g.KeyLits))], g.KeyLits[r.Intn(len(g.KeyLits))]
			if lo >= l {
				lo = ""
			}
			if hi <= l {
				hi = l + "~"
			}
			var a, b *Node
			switch r.Intn(4) {
			case 0:
				a, b = Bin(">=", Key(), Str(l)), Bin("<=", Key(), Str(l))
			case 1:
				a, b = Bin("<=", Key(), Str(l)), Bin("<=", Str(l), Key())
			case 2:
				if lo == "" {
					continue
				}
				a, b = Between(Key(), Str(lo), Str(l)), Between(Key(), Str(l), Str(hi))
			default:
				a, b = Between(Key(), Str(l), Str(hi)), Bin("<=", Key(), Str(l))
			}
			if r.Bool() {
				a, b = b, a
			}
			return And(a, b)
		case 0, 1, 2: // field vs literal, either orientation
			f, pool := g.field()
			if g.NoKeyPin && f.K == KKey {
				continue
			}
			op := cmpS[r.Intn(len(cmpS))]
			if op == "~=" {
				if g.NoRegex {
					continue
				}
				if f.K == KKey && r.Bool() {
					if pat := g.keyPattern(); pat != "" {
						return Bin(op, f, Str(pat))
					}
				}
				return Bin(op, f, Str(rePool[r.Intn(len(rePool))]))
			}
			l := g.lit(pool)
			if r.Chance(1, 4) && !g.Avoid["literal-left-key-compare"] {
				return Bin(op, l, f)
			}
			return Bin(op, f, l)
		case 3: // general text comparison
			a, b := g.Str(depth), g.Str(depth)
			if sameField(a, b) || (g.NoKeyPin && (a.K == KKey || b.K == KKey)) {
				continue
			}
			op := cmpS[r.Intn(len(cmpS))]
			if op == "~=" {
				if g.NoRegex {
					continue
				}
				switch r.Intn(4) {
				case 0:
					// row-dependent pattern (values of most store families are valid patterns)
					if a.K == KValue {
						b = Key()
					} else {
						b = Value()
					}
				case 1:
					b = Bin("+", Str("^"), Value())
					if a.K == KValue {
						b = Bin("+", Str("^"), Key())
					}
				default:
					b = Str(rePool[r.Intn(len(rePool))])
				}
			}
			return Bin(op, a, b)
		case 4, 5: // numeric comparison
			a, b := g.Num(depth), g.Num(depth)
			op := cmpN[r.Intn(len(cmpN))]
			if (op == "=" || op == "!=") && !g.FloatEq && (isFloaty(a) || isFloaty(b)) {
				continue
			}
			return Bin(op, a, b)
		case 6: // IN over literals
			f, pool := g.field()
			if g.NoKeyPin && f.K == KKey {
				continue
			}
			n := r.Range(1, 4)
			items := make([]*Node, n)
			for i := range items {
				items[i] = g.lit(pool)
			}
			if g.Avoid["in-duplicate-key"] && f.K == KKey {
				seen := map[string]bool{}
				out := items[:0]
				for _, it := range items {
					if !seen[it.S] {
						seen[it.S] = true
						out = append(out, it)
					}
				}
				items = out
			}
			if r.Chance(1, 4) {
				// an item that depends on the row (the other field, or a function of a field)
				var dep *Node
				switch r.Intn(3) {
				case 0:
					if f.K == KKey {
						dep = Value()
					} else {
						dep = Key()
					}
				case 1:
					dep = Call("lower", Value())
				default:
					dep = Call("upper", Key())
				}
				items[r.Intn(len(items))] = dep
			}
			return In(f, items...)
		case 7: // numeric IN
			x := g.Num(depth)
			if isFloaty(x) && !g.FloatEq {
				continue
			}
			n := r.Range(1, 4)
			items := make([]*Node, n)
			for i := range items {
				items[i] = g.intLit()
			}
			return In(x, items...)
		case 8: // BETWEEN text
			f, pool := g.field()
			if g.NoKeyPin && f.K == KKey {
				continue
			}
			a, b := g.lit(pool), g.lit(pool)
			if a.S == b.S {
				continue
			}
			if a.S > b.S {
				a, b = b, a
			}
			return Between(f, a, b)
		case 9: // BETWEEN number
			x := g.Num(depth)
			lo := int64(r.Range(0, 10))
			hi := lo + int64(r.Range(1, 20))
			return Between(x, Int(lo), Int(hi))
		case 10:
			f, _ := g.field()
			if g.NoKeyPin && f.K == KKey {
				f = Value()
			}
			if r.Bool() {
				return Call("is_int", f)
			}
			return Call("is_float", f)
		case 11:
			if depth > 0 {
				return Not(g.Bool(depth - 1))
			}
		}
	}
}

// Bool returns a Boolean expression usable as a WHERE clause or as an operand
// of and/or (never a bare literal).
func (g *PredGen) Bool(depth int) *Node {
	r := g.R
	if depth <= 0 || r.Chance(1, 4) {
		return g.Atom(depth)
	}
	l, rr := g.Bool(depth-1), g.Bool(depth-1)
	var n *Node
	if r.Bool() {
		n = And(l, rr)
	} else {
		n = Or(l, rr)
	}
	n.Sym = r.Bool()
	return n
}

func Itoa(i int) string { return strconv.Itoa(i) }
