package checks

import (
	"fmt"
	"sort"
	"strconv"

	kvql "github.com/c4pt0r/kvql"

	"kvqlverif/drive"
	"kvqlverif/gen"
	"kvqlverif/refstore"
	"kvqlverif/rt"
)

// C11 — DELETE removes exactly the pairs its WHERE (and LIMIT) selects.
// Model map + log grammar; plus sequential histories of put / remove / delete /
// select against a model map.

type c11 struct{ rt.Base }

func init() { rt.Register(&c11{}) }

func (c11) ID() string { return "C11" }

func c11Singles(tier string) int {
	if tier == "thorough" {
		return 200000
	}
	return 10000
}

func c11Histories(tier string) int {
	if tier == "thorough" {
		return 10000
	}
	return 300
}

func (c c11) NumCases(tier string) int { return c11Singles(tier) + c11Histories(tier) }

func (c11) Rule() string {
	return "single DELETE statements whose predicate plans as point reads (direct-removal shortcut), prefix, range, full scan or OR/AND mixes, with and without LIMIT, over prior states of 0..200 pairs (result sizes around multiples of the batch size), in row and batch mode; plus sequential histories of 5..30 put/remove/delete/select statements against one store with the model compared after every statement. Non-trivial: the delete removed at least one pair; distinct by (statement, prior state) hash."
}

func (c11) Assumptions() []string {
	return []string{"the key set is what the engine's own `select * where P [limit]` returns on a copy of the prior state (the property is phrased as that equivalence; C01/C02/C08 judge the select itself)", "snapshot cursors (Storage contract of DESIGN section 1)"}
}

func (c11) Gates(tier string, m map[string]int64) []rt.Gate {
	return []rt.Gate{
		rt.GateMin("scan-and-delete strategy observed", m, "strategy:DeletePlan", 100),
		rt.GateMin("direct-removal strategy observed", m, "strategy:RemovePlan", 20),
		rt.GateMin("multi-batch deletes observed", m, "multi_batch_delete", 20),
		rt.GateMin("deletes with LIMIT", m, "with_limit", 200),
		rt.GateMin("deletes that removed something", m, "removed_some", 500),
		rt.GateMin("history statements checked", m, "history_statements", 1000),
	}
}

var c11Families = []string{gen.FTiny, gen.FNum, gen.FNum, gen.FMixed, gen.FWide, gen.FWide, gen.FTies, gen.FRel}

func c11Pred(c *rt.Ctx, st *gen.Store, r *rt.Rand) *gen.Node {
	g := &gen.PredGen{R: r, KeyLits: st.KeyLiterals(r), IntVals: st.ValuesInt(), FltVals: st.ValuesFloat(), Avoid: c.Avoid, FloatEq: true}
	if c.Case%16 == 7 {
		// a Boolean literal as the left operand of the keyword `and`, over several chunks
		g.NoKeyPin = true
		n := gen.And(gen.Bool(true), g.Atom(1))
		n.Sym = false
		c.Rec.Inc("literal_true_and_filter")
		return n
	}
	if r.Chance(1, 4) {
		// nested prefixes, touching ranges, a prefix with a one-sided range inside it, key lists
		// around a range, the empty-literal bounds: the constructs the scan-range algebra has cases for
		g.ForceKind = []int{12, 13, 13, 14, 14, 14, 15, 15, 16, 19}[r.Intn(10)]
		c.Rec.Inc("key_region_constructs_first")
	}
	vals := map[string]bool{}
	for _, p := range st.Pairs {
		if gen.Printable(p.V) && len(p.V) < 12 {
			vals[p.V] = true
		}
	}
	for v := range vals {
		g.ValLits = append(g.ValLits, v)
	}
	g.ValLits = append(g.ValLits, "a", "1", "")
	sort.Strings(g.ValLits)
	if g.ForceKind > 0 && r.Bool() {
		// the construct alone is the whole filter: nothing around it narrows what its region loses
		c.Rec.Inc("key_region_construct_alone")
		return g.Atom(1)
	}
	// bias towards key-pinning shapes
	K := gen.Key
	lit := func() *gen.Node { return gen.Str(g.KeyLits[r.Intn(len(g.KeyLits))]) }
	switch r.Intn(10) {
	case 0:
		n := r.Range(1, 5)
		items := make([]*gen.Node, n)
		for i := range items {
			items[i] = lit()
		}
		return gen.In(K(), items...)
	case 1:
		return gen.Or(gen.Bin("=", K(), lit()), gen.Bin("=", K(), lit()))
	case 2:
		return gen.And(gen.In(K(), lit(), lit(), lit()), g.Atom(1))
	case 3:
		return gen.Bin("^=", K(), lit())
	case 4:
		return gen.And(gen.Bin("^=", K(), gen.Str("k")), g.Atom(1))
	case 5:
		return gen.Or(gen.And(gen.Bin("=", K(), lit()), g.Atom(0)), gen.Bin("=", K(), lit()))
	case 6:
		return gen.Bin(">=", K(), lit())
	case 8:
		// IN list with an item that depends on the pair (DELETE filters through the vector path)
		items := []*gen.Node{lit(), lit()}
		dep := []*gen.Node{gen.Value(), gen.Call("lower", gen.Value()), gen.Call("upper", K()), gen.Bin("+", K(), gen.Str(""))}[r.Intn(4)]
		items[r.Intn(2)] = dep
		if r.Bool() {
			return gen.In(K(), items...)
		}
		return gen.In(gen.Value(), gen.Str("tombstone"), K(), gen.Str(g.ValLits[r.Intn(len(g.ValLits))]))
	case 7:
		// unions and intersections of half-open and closed key ranges, literal on either side
		rng := func() *gen.Node {
			a, b := g.KeyLits[r.Intn(len(g.KeyLits))], g.KeyLits[r.Intn(len(g.KeyLits))]
			if a > b {
				a, b = b, a
			}
			if a == b {
				b = a + "z" // BETWEEN needs lower < upper (equal or reversed bounds fail at run time)
			}
			switch r.Intn(6) {
			case 0:
				return gen.Bin("<", K(), gen.Str(a))
			case 1:
				return gen.Bin("<=", K(), gen.Str(b))
			case 2:
				return gen.Bin(">", K(), gen.Str(b))
			case 3:
				return gen.Bin(">=", gen.Str(a), K())
			case 4:
				return gen.Between(K(), gen.Str(a), gen.Str(b))
			}
			return gen.And(gen.Bin(">=", K(), gen.Str(a)), gen.Bin("<=", K(), gen.Str(b)))
		}
		n := gen.Or(rng(), rng())
		if r.Chance(1, 3) {
			n = gen.Or(n, rng())
		}
		if r.Chance(1, 3) {
			n = gen.And(n, g.Atom(1))
		}
		return n
	}
	return g.Bool(r.Range(0, 3))
}

func (k c11) Run(c *rt.Ctx) {
	if c.Case >= c11Singles(c.Tier) {
		k.history(c)
		return
	}
	r := c.R
	st := gen.NewStore(r, c11Families[r.Intn(len(c11Families))])
	pred := c11Pred(c, st, r)
	if r.Chance(1, 25) {
		ps, p := highByteCase(r)
		st, pred = &gen.Store{Family: gen.FBinary, Pairs: ps}, p
		c.Rec.Inc("high_byte_literals")
	}
	if r.Chance(1, 25) {
		// a pair under the empty key and a filter that no key satisfies (or only that one): what a
		// delete turned into a direct removal removes is what the filter selects
		ps := []refstore.Pair{{K: "", V: "e"}, {K: "a", V: "1"}, {K: "b", V: "2"}, {K: "c", V: "3"}}
		w := []string{"key < ''", "'' > key", "key < '' | key = 'b'", "key <= ''", "'' >= key | key = 'zz'", "key in ('', 'zz')", "key between '' and ''", "key < '' | key < ''"}[r.Intn(8)]
		c.Rec.Inc("empty_key_filters")
		k.single(c, w, "", ps, drive.Mode{Batch: r.Bool(), Size: pickBatch(c), Cache: true, ExtraPolls: r.Intn(3)}, w)
		return
	}
	lim := ""
	if r.Chance(1, 3) {
		s := []int{0, 0, 1, 2, 3, 5, 31, 32, 33, 64}[r.Intn(10)]
		n := []int{0, 1, 2, 3, 5, 10, 32, 33, 100}[r.Intn(9)]
		if s == 0 && r.Bool() {
			lim = fmt.Sprintf(" limit %d", n)
		} else {
			lim = fmt.Sprintf(" limit %d, %d", s, n)
		}
	}
	style := gen.Style{Paren: []int{0, 1}[r.Intn(2)], R: r.Fork(), Case: r.Chance(1, 4)}
	where := style.Print(pred)
	mode := drive.Mode{Batch: r.Bool(), Size: pickBatch(c), Cache: true, ExtraPolls: r.Intn(3)}
	k.single(c, where, lim, st.Pairs, mode, gen.Shape(pred))
}

func (k c11) single(c *rt.Ctx, where, lim string, prior []refstore.Pair, mode drive.Mode, shape string) {
	rec := c.Rec
	sq := "select * where " + where + lim
	dq := "delete where " + where + lim
	// reference key set: the engine's own select on a copy of the prior state
	sel := drive.Run(sq, refstore.New(prior), drive.Mode{Batch: false, Size: mode.Size, Cache: true})
	rec.Eval(1)
	if sel.Status() != "ok" {
		rec.NotJudged("the select with the same WHERE does not complete: " + sel.Status())
		return
	}
	keys := map[string]bool{}
	for _, row := range sel.Rows {
		keys[unq(row[0])] = true
	}
	var want []refstore.Pair
	for _, p := range prior {
		if !keys[p.K] {
			want = append(want, p)
		}
	}
	st := refstore.New(prior)
	o := drive.Run(dq, st, mode)
	rec.Eval(1)
	log := st.Log()
	c.Logf("delete: %s\nprior: %v\nmode %s\nselect keys: %v\noutcome: %v\nlog: %v", dq, storeBrief(prior), mode, keysOf(keys), outcomeBrief(o), refstore.FormatLog(log))
	detail := func(extra rt.D) func() rt.D {
		return func() rt.D {
			d := rt.D{"statement": dq, "prior": storeBrief(prior), "mode": mode.String(), "select_keys": keysOf(keys), "outcome": outcomeBrief(o), "storage_log": trimLog(refstore.FormatLog(log))}
			for kk, v := range extra {
				d[kk] = v
			}
			return d
		}
	}
	strategy := "?"
	switch o.Plan.(type) {
	case *kvql.DeletePlan:
		strategy = "DeletePlan"
	case *kvql.RemovePlan:
		strategy = "RemovePlan"
	}
	cluster := func(what string) string {
		l := "no limit"
		if lim != "" {
			l = "limit"
		}
		return strategy + " / " + l + " / " + what + " / " + shape
	}
	if o.Status() == "panic" || o.Status() == "runaway" {
		c.Violation("crash", cluster(o.Frame), detail(nil))
		return
	}
	if o.Status() != "ok" {
		rec.NotJudged("delete did not complete although the select did: " + firstWords(o.ErrText()))
		if o.Status() == "execerr" {
			c.Violation("delete-fails-where-select-succeeds", cluster(firstWords(o.ErrText())), detail(nil))
		}
		return
	}
	rec.Inc("strategy:" + strategy)
	rec.DistinctS(dq + "\x00" + pairsKey(prior))
	if lim != "" {
		rec.Inc("with_limit")
	}
	nDelCalls := 0
	for _, e := range log {
		switch e.Op {
		case refstore.OpPut, refstore.OpBatchPut:
			c.Violation("delete-issued-a-put", cluster(e.OpS), detail(nil))
			return
		case refstore.OpDelete, refstore.OpBatchDelete:
			nDelCalls++
		}
	}
	if nDelCalls > 1 {
		rec.Inc("multi_batch_delete")
	}
	if !st.Equal(want) {
		c.Violation("post-state", cluster("store differs from prior minus selected keys"), detail(rt.D{"diff": diffPairs(want, st.Pairs())}))
		return
	}
	if len(keys) > 0 {
		rec.Inc("removed_some")
	}
	if o.ExtraRows > 0 {
		c.Violation("finished-delete-returns-rows", cluster("extra poll"), detail(nil))
		return
	}
	if c.Case%500 == 0 {
		rec.Sample(rt.D{"statement": dq, "prior_size": len(prior), "deleted": len(keys), "strategy": strategy, "mode": mode.String()})
	}
}

// history: a sequence of statements against one store and a model map.
func (k c11) history(c *rt.Ctx) {
	r := c.R
	rec := c.Rec
	base := gen.NewStore(r, []string{gen.FNum, gen.FTiny, gen.FWide, gen.FTies}[r.Intn(4)])
	st := refstore.New(base.Pairs)
	model := map[string]string{}
	for _, p := range base.Pairs {
		model[p.K] = p.V
	}
	modelPairs := func() []refstore.Pair {
		var ps []refstore.Pair
		for kk, v := range model {
			ps = append(ps, refstore.Pair{K: kk, V: v})
		}
		return refstore.New(ps).Pairs()
	}
	n := r.Range(5, 30)
	var trace []string
	for step := 0; step < n; step++ {
		cur := modelPairs()
		gs := &gen.Store{Family: base.Family, Pairs: cur}
		mode := drive.Mode{Batch: r.Bool(), Size: pickBatch(c), Cache: true}
		var q string
		var expect func() []refstore.Pair // expected post-state
		switch r.Intn(5) {
		case 0: // put literal pairs
			np := r.Range(1, 4)
			q = "put "
			type kv struct{ k, v string }
			var ws []kv
			for i := 0; i < np; i++ {
				kk := []string{"p1", "p2", "k001", "k010", "a", "b", "new"}[r.Intn(7)]
				if len(cur) > 0 && r.Chance(1, 3) && gen.Printable(cur[r.Intn(len(cur))].K) {
					kk = cur[r.Intn(len(cur))].K
					if !gen.Printable(kk) {
						kk = "p1"
					}
				}
				vv := strconv.Itoa(r.Intn(50))
				if i > 0 {
					q += ", "
				}
				q += fmt.Sprintf("('%s', '%s')", kk, vv)
				ws = append(ws, kv{kk, vv})
			}
			expect = func() []refstore.Pair {
				for _, w := range ws {
					model[w.k] = w.v
				}
				return modelPairs()
			}
		case 1: // remove literal keys
			nk := r.Range(1, 3)
			q = "remove "
			var ks []string
			for i := 0; i < nk; i++ {
				kk := []string{"p1", "k001", "zz", "a"}[r.Intn(4)]
				if len(cur) > 0 && r.Bool() && gen.Printable(cur[r.Intn(len(cur))].K) {
					kk = cur[r.Intn(len(cur))].K
					if !gen.Printable(kk) {
						kk = "zz"
					}
				}
				if i > 0 {
					q += ", "
				}
				q += "'" + kk + "'"
				ks = append(ks, kk)
			}
			expect = func() []refstore.Pair {
				for _, kk := range ks {
					delete(model, kk)
				}
				return modelPairs()
			}
		case 2, 3: // delete where P [limit]
			pred := c11Pred(c, gs, r)
			where := gen.Print(pred)
			lim := ""
			if r.Chance(1, 3) {
				lim = fmt.Sprintf(" limit %d, %d", r.Intn(4), r.Range(1, 5))
			}
			q = "delete where " + where + lim
			sel := drive.Run("select * where "+where+lim, refstore.New(cur), drive.Mode{Size: mode.Size, Cache: true})
			rec.Eval(1)
			if sel.Status() != "ok" {
				continue
			}
			expect = func() []refstore.Pair {
				for _, row := range sel.Rows {
					delete(model, unq(row[0]))
				}
				return modelPairs()
			}
		default: // select: must not change anything and must agree with the model through the reference evaluator
			pred := c11Pred(c, gs, r)
			q = "select * where " + gen.Print(pred)
			want, grade, _ := c01Expected(pred, cur, true)
			o := drive.Run(q, st, mode)
			rec.Eval(1)
			rec.Inc("history_statements")
			trace = append(trace, q)
			if o.Status() == "ok" && grade == "strict" && !drive.RowsEqual(o.Rows, want) {
				tr := append([]string{}, trace...)
				c.Violation("history-select", "select inside a history disagrees with the model / "+gen.Shape(pred), func() rt.D {
					return rt.D{"history": tr, "step": len(tr) - 1, "expected": drive.Trunc(want, 10), "observed": outcomeBrief(o), "model": storeBrief(cur)}
				})
				return
			}
			if !st.Equal(cur) {
				tr := append([]string{}, trace...)
				c.Violation("history-state", "select changed the store", func() rt.D { return rt.D{"history": tr, "diff": diffPairs(cur, st.Pairs())} })
				return
			}
			continue
		}
		o := drive.Run(q, st, mode)
		rec.Eval(1)
		rec.Inc("history_statements")
		trace = append(trace, q)
		if o.Status() != "ok" {
			if o.Status() == "panic" {
				tr := append([]string{}, trace...)
				c.Violation("crash", "history / "+o.Frame, func() rt.D { return rt.D{"history": tr, "outcome": outcomeBrief(o)} })
			} else {
				rec.NotJudged("history statement failed: " + o.Status())
			}
			return
		}
		want := expect()
		if !st.Equal(want) {
			tr := append([]string{}, trace...)
			kind := q[:6]
			c.Violation("history-state", kind+" inside a history leaves a state different from the model", func() rt.D {
				return rt.D{"history": tr, "step": len(tr) - 1, "mode": mode.String(), "diff": diffPairs(want, st.Pairs()), "outcome": outcomeBrief(o)}
			})
			return
		}
	}
	rec.DistinctS(fmt.Sprint(trace))
	if c.Case%50 == 0 {
		rec.Sample(rt.D{"history": trace})
	}
}
