// kvcheck is coordinator and worker in one binary.
//
//	kvcheck run    -prop C01 -tier quick          coordinator: shards cases over worker processes
//	kvcheck worker -prop C01 -tier quick -shard i -nshards n -dir d   one shard in its own process
//	kvcheck replay -file replay/C01-xxxx.json     re-run one recorded case verbosely
//	kvcheck witness -prop C01 -id KF-..           run one known-finding witness
//
// Exit codes of `run`: 0 held on everything explored; 1 violation (a line
// "VIOLATION property=<id> replay=<path>" per cluster); 2 inconclusive.
package main

import (
	"bufio"
	"encoding/json"
	"flag"
	"fmt"
	"os"
	"os/exec"
	"path/filepath"
	"regexp"
	"runtime"
	"runtime/debug"
	"sort"
	"strconv"
	"strings"
	"sync"
	"syscall"
	"time"

	"kvqlverif/checks"
	"kvqlverif/rt"
)

func main() {
	if len(os.Args) < 2 {
		fmt.Fprintln(os.Stderr, "usage: kvcheck run|worker|replay|witness ...")
		os.Exit(2)
	}
	switch os.Args[1] {
	case "run":
		os.Exit(runCoordinator(os.Args[2:]))
	case "worker":
		os.Exit(runWorker(os.Args[2:]))
	case "replay":
		os.Exit(runReplay(os.Args[2:]))
	case "witness":
		os.Exit(runWitness(os.Args[2:]))
	case "fuzzone":
		os.Exit(runFuzzOne(os.Args[2:]))
	case "list":
		for _, id := range rt.IDs() {
			fmt.Println(id)
		}
	default:
		fmt.Fprintln(os.Stderr, "unknown subcommand", os.Args[1])
		os.Exit(2)
	}
}

func verifDir() string {
	if d := os.Getenv("VERIF_DIR"); d != "" {
		return d
	}
	return "/verif"
}

// evidenceDir / replayDir can be redirected (seeded-defect runs must not
// overwrite the evidence of the unchanged tree).
func evidenceDir() string {
	if d := os.Getenv("VERIF_EVIDENCE_DIR"); d != "" {
		return d
	}
	return filepath.Join(verifDir(), "evidence")
}

func replayDir() string {
	if d := os.Getenv("VERIF_REPLAY_DIR"); d != "" {
		return d
	}
	return filepath.Join(verifDir(), "replay")
}

func envSeed() uint64 {
	if s := os.Getenv("VERIF_SEED"); s != "" {
		if v, err := strconv.ParseUint(s, 10, 64); err == nil {
			return v
		}
	}
	return 1
}

// ---------------------------------------------------------------- known findings

type KnownFinding struct {
	Status   string         `json:"status"` // known | fixed
	Property string         `json:"property"`
	ID       string         `json:"id"`
	What     string         `json:"what"`
	Commit   string         `json:"commit,omitempty"`
	Witness  map[string]any `json:"witness,omitempty"`
	Avoid    string         `json:"avoid,omitempty"`
}

type knownFile struct {
	Findings []KnownFinding `json:"findings"`
}

func loadKnown() []KnownFinding {
	b, err := os.ReadFile(filepath.Join(verifDir(), "known_findings.json"))
	if err != nil {
		return nil
	}
	var kf knownFile
	if err := json.Unmarshal(b, &kf); err != nil {
		fmt.Fprintln(os.Stderr, "known_findings.json:", err)
		return nil
	}
	return kf.Findings
}

func avoidSet(prop string) map[string]bool {
	m := map[string]bool{}
	for _, k := range loadKnown() {
		if k.Status == "known" && k.Avoid != "" {
			// an avoid class applies to every check: the construct is not
			// generated anywhere (the finding is listed under each property
			// it breaks)
			m[k.Avoid] = true
		}
	}
	return m
}

// ---------------------------------------------------------------- worker

func runWorker(args []string) int {
	fs := flag.NewFlagSet("worker", flag.ExitOnError)
	prop := fs.String("prop", "", "")
	tier := fs.String("tier", "quick", "")
	seed := fs.Uint64("seed", 1, "")
	shard := fs.Int("shard", 0, "")
	nshards := fs.Int("nshards", 1, "")
	dir := fs.String("dir", "", "")
	from := fs.Int("from", -1, "first case index (default: shard)")
	skip := fs.String("skip", "", "comma separated case indices to skip")
	only := fs.Int("only", -1, "run exactly this case")
	gen := fs.Int("gen", 0, "generation (restart count) used in file names")
	fs.Parse(args)
	chk := rt.Get(*prop)
	if chk == nil {
		fmt.Fprintln(os.Stderr, "unknown property", *prop)
		return 2
	}
	debug.SetMaxStack(256 << 20)
	skips := map[int]bool{}
	for _, s := range strings.Split(*skip, ",") {
		if s != "" {
			v, _ := strconv.Atoi(s)
			skips[v] = true
		}
	}
	base := filepath.Join(*dir, fmt.Sprintf("w%d.g%d", *shard, *gen))
	jf, err := os.OpenFile(base+".journal", os.O_CREATE|os.O_WRONLY|os.O_TRUNC, 0o644)
	if err != nil {
		fmt.Fprintln(os.Stderr, err)
		return 2
	}
	defer jf.Close()
	rec := rt.NewRec()
	avoid := avoidSet(*prop)
	n := chk.NumCases(*tier)
	dump := func(upto int, done bool) {
		rec.DoneUpto = upto
		rec.Done = done
		rec.Finalize()
		b, _ := json.Marshal(rec)
		tmp := base + ".result.tmp"
		os.WriteFile(tmp, b, 0o644)
		os.Rename(tmp, base+".result.json")
	}
	start := *shard
	if *from >= 0 {
		start = *from
	}
	lastDump := time.Now()
	runOne := func(idx int) {
		fmt.Fprintf(jf, "B %d\n", idx)
		c := &rt.Ctx{Prop: *prop, Tier: *tier, Seed: *seed, Case: idx, R: rt.NewRand(*seed, *prop, uint64(idx)), Rec: rec, Avoid: avoid}
		func() {
			defer func() {
				if r := recover(); r != nil {
					st := string(debug.Stack())
					oracle := "uncaught-panic-in-harness"
					if strings.Contains(firstNonRuntimeFrame(st), "c4pt0r/kvql") {
						oracle = "uncaught-panic"
					}
					c.Violation(oracle, fmt.Sprint(r), func() rt.D { return rt.D{"panic": fmt.Sprint(r), "stack": trimStack(st)} })
				}
			}()
			chk.Run(c)
		}()
		rec.Counters["cases"]++
		fmt.Fprintf(jf, "E %d\n", idx)
	}
	if *only >= 0 {
		runOne(*only)
		dump(*only, true)
		return 0
	}
	last := -1
	for idx := start; idx < n; idx += *nshards {
		if skips[idx] {
			continue
		}
		runOne(idx)
		last = idx
		if time.Since(lastDump) > 5*time.Second {
			dump(idx, false)
			lastDump = time.Now()
		}
	}
	dump(last, true)
	return 0
}

func firstNonRuntimeFrame(stack string) string {
	lines := strings.Split(stack, "\n")
	for _, l := range lines {
		if strings.HasPrefix(l, "\t") || strings.HasPrefix(l, "goroutine") || l == "" {
			continue
		}
		if strings.HasPrefix(l, "runtime") || strings.HasPrefix(l, "panic(") || strings.Contains(l, "debug.Stack") || strings.Contains(l, "main.runWorker") {
			continue
		}
		return l
	}
	return ""
}

func trimStack(st string) string {
	lines := strings.Split(st, "\n")
	if len(lines) > 40 {
		lines = lines[:40]
	}
	return strings.Join(lines, "\n")
}

// ---------------------------------------------------------------- coordinator

type workerProc struct {
	shard     int
	gen       int
	cmd       *exec.Cmd
	done      chan error
	curCase   int
	curSince  time.Time
	journalAt int64
	finished  bool
	partials  []*rt.Rec
	skips     []int
}

func (w *workerProc) base(dir string) string {
	return filepath.Join(dir, fmt.Sprintf("w%d.g%d", w.shard, w.gen))
}

// readJournal updates curCase (the case begun and not ended) from the journal.
func (w *workerProc) readJournal(dir string) {
	f, err := os.Open(w.base(dir) + ".journal")
	if err != nil {
		return
	}
	defer f.Close()
	f.Seek(w.journalAt, 0)
	rd := bufio.NewReader(f)
	for {
		line, err := rd.ReadString('\n')
		if err != nil {
			break // partial line: re-read next time
		}
		w.journalAt += int64(len(line))
		line = strings.TrimSpace(line)
		if len(line) < 3 {
			continue
		}
		v, _ := strconv.Atoi(line[2:])
		if line[0] == 'B' {
			w.curCase = v
			w.curSince = time.Now()
		} else if line[0] == 'E' {
			w.curCase = -1
		}
	}
}

func loadRec(path string) *rt.Rec {
	b, err := os.ReadFile(path)
	if err != nil {
		return nil
	}
	r := rt.NewRec()
	if err := json.Unmarshal(b, r); err != nil {
		return nil
	}
	return r
}

// maxWatchdogCases: cases of one run that may exceed the watchdog before the run is abandoned
const maxWatchdogCases = 16

func runCoordinator(args []string) int {
	fs := flag.NewFlagSet("run", flag.ExitOnError)
	prop := fs.String("prop", "", "")
	tier := fs.String("tier", "quick", "")
	workers := fs.Int("workers", 0, "")
	fs.Parse(args)
	if t := os.Getenv("VERIF_TIER"); t == "quick" || t == "thorough" {
		// the tier given on the command line wins; VERIF_TIER only fills a gap
		if *tier == "" {
			*tier = t
		}
	}
	seed := envSeed()
	chk := rt.Get(*prop)
	if chk == nil {
		fmt.Printf("INCONCLUSIVE property=%s reason=unknown-property\n", *prop)
		return 2
	}
	t0 := time.Now()
	n := chk.NumCases(*tier)
	nw := *workers
	if nw <= 0 {
		nw = runtime.NumCPU()
		if v := os.Getenv("VERIF_WORKERS"); v != "" {
			if x, err := strconv.Atoi(v); err == nil && x > 0 {
				nw = x
			}
		}
	}
	if wc, ok := chk.(interface{ Workers() int }); ok && os.Getenv("VERIF_WORKERS") == "" && *workers <= 0 {
		nw = wc.Workers()
	}
	if nw > n {
		nw = n
	}
	if nw < 1 {
		nw = 1
	}
	dir := filepath.Join(verifDir(), ".work", *prop+"-"+*tier+os.Getenv("VERIF_WORK_SUFFIX"))
	os.RemoveAll(dir)
	os.MkdirAll(dir, 0o755)
	self, _ := os.Executable()
	timeout := time.Duration(chk.CaseTimeoutSec()) * time.Second

	spawn := func(w *workerProc, from int) {
		a := []string{"worker", "-prop", *prop, "-tier", *tier, "-seed", fmt.Sprint(seed), "-shard", fmt.Sprint(w.shard), "-nshards", fmt.Sprint(nw), "-dir", dir, "-gen", fmt.Sprint(w.gen)}
		if from >= 0 {
			a = append(a, "-from", fmt.Sprint(from))
		}
		if len(w.skips) > 0 {
			ss := make([]string, len(w.skips))
			for i, s := range w.skips {
				ss[i] = fmt.Sprint(s)
			}
			a = append(a, "-skip", strings.Join(ss, ","))
		}
		cmd := exec.Command(self, a...)
		errf, _ := os.Create(w.base(dir) + ".stderr")
		cmd.Stdout = errf
		cmd.Stderr = errf
		cmd.Env = append(os.Environ(), "GOTRACEBACK=all")
		w.cmd = cmd
		w.done = make(chan error, 1)
		w.curCase = -1
		w.journalAt = 0
		if err := cmd.Start(); err != nil {
			w.done <- err
			return
		}
		go func() { w.done <- cmd.Wait(); errf.Close() }()
	}

	ws := make([]*workerProc, nw)
	for i := range ws {
		ws[i] = &workerProc{shard: i}
		spawn(ws[i], -1)
	}
	total := rt.NewRec()
	var procFindings []rt.Finding // crash / hang findings made by the coordinator
	inconclusive := []string{}
	type soloJob struct{ idx int }
	var solos []soloJob

	remaining := nw
	for remaining > 0 {
		time.Sleep(100 * time.Millisecond)
		for _, w := range ws {
			if w.finished {
				continue
			}
			w.readJournal(dir)
			select {
			case err := <-w.done:
				w.readJournal(dir)
				rec := loadRec(w.base(dir) + ".result.json")
				if err == nil && rec != nil && rec.Done {
					w.partials = append(w.partials, rec)
					w.finished = true
					remaining--
					continue
				}
				// the worker died
				culprit := w.curCase
				stderrTail := tailFile(w.base(dir)+".stderr", 60)
				upto := -1
				if rec != nil {
					w.partials = append(w.partials, rec)
					upto = rec.DoneUpto
				}
				if culprit < 0 {
					inconclusive = append(inconclusive, fmt.Sprintf("worker %d died outside a case: %v", w.shard, err))
					w.finished = true
					remaining--
					continue
				}
				procFindings = append(procFindings, rt.Finding{Prop: *prop, Oracle: "process-died", Cluster: classifyDeath(stderrTail), Case: culprit, Tier: *tier, Seed: seed,
					Detail: map[string]any{"exit": fmt.Sprint(err), "stderr_tail": stderrTail}})
				w.skips = append(w.skips, culprit)
				w.gen++
				next := w.shard
				if upto >= 0 {
					next = upto + nw
				}
				spawn(w, next)
			default:
				if w.curCase >= 0 && time.Since(w.curSince) > timeout {
					// watchdog: dump goroutines to the stderr file, kill, re-run alone later
					culprit := w.curCase
					w.cmd.Process.Signal(syscall.SIGQUIT)
					select {
					case <-w.done:
					case <-time.After(10 * time.Second):
						w.cmd.Process.Kill()
						<-w.done
					}
					rec := loadRec(w.base(dir) + ".result.json")
					upto := -1
					if rec != nil {
						w.partials = append(w.partials, rec)
						upto = rec.DoneUpto
					}
					solos = append(solos, soloJob{culprit})
					w.skips = append(w.skips, culprit)
					if len(solos) >= maxWatchdogCases {
						// a tree on which case after case does not end (an endless loop in a plan) would
						// cost a watchdog period per case: the run is abandoned, the cases seen so far are
						// re-run alone below (for C06 that decides), the rest is reported as not run
						for _, o := range ws {
							if o.finished {
								continue
							}
							if o != w {
								o.cmd.Process.Kill()
								<-o.done
								if r := loadRec(o.base(dir) + ".result.json"); r != nil {
									o.partials = append(o.partials, r)
								}
							}
							o.finished = true
						}
						remaining = 0
						inconclusive = append(inconclusive, fmt.Sprintf("run abandoned: %d cases exceeded the watchdog, the remaining cases were not run", len(solos)))
						if *prop != "C06" {
							solos = nil // a confirmed hang is C06's finding; here it could only repeat "inconclusive"
						}
						break
					}
					w.gen++
					next := w.shard
					if upto >= 0 {
						next = upto + nw
					}
					spawn(w, next)
				}
			}
		}
	}
	for _, w := range ws {
		for _, p := range w.partials {
			total.Merge(p)
		}
	}
	// solo re-runs of watchdog cases: each alone in a fresh process, a few at a time (a machine
	// busy with sixteen workers is why the limit is generous: four times the case timeout)
	const maxSolos = 12
	if len(solos) > maxSolos {
		inconclusiveNote := fmt.Sprintf("%d further cases exceeded the watchdog and were not re-run alone (the first %d were)", len(solos)-maxSolos, maxSolos)
		if total.Notes == nil {
			total.Notes = map[string]string{}
		}
		total.Notes["watchdog"] = inconclusiveNote
		solos = solos[:maxSolos]
	}
	var soloMu sync.Mutex
	var soloWG sync.WaitGroup
	soloSem := make(chan struct{}, 6)
	for _, sj := range solos {
		sj := sj
		soloWG.Add(1)
		soloSem <- struct{}{}
		go func() {
			defer func() { <-soloSem; soloWG.Done() }()
			a := []string{"worker", "-prop", *prop, "-tier", *tier, "-seed", fmt.Sprint(seed), "-shard", "900", "-nshards", "1", "-dir", dir, "-gen", fmt.Sprint(sj.idx), "-only", fmt.Sprint(sj.idx)}
			cmd := exec.Command(self, a...)
			base := filepath.Join(dir, fmt.Sprintf("w900.g%d", sj.idx))
			errf, _ := os.Create(base + ".stderr")
			cmd.Stdout, cmd.Stderr = errf, errf
			cmd.Env = append(os.Environ(), "GOTRACEBACK=all")
			cmd.Start()
			done := make(chan error, 1)
			go func() { done <- cmd.Wait() }()
			select {
			case err := <-done:
				errf.Close()
				soloMu.Lock()
				if rec := loadRec(base + ".result.json"); rec != nil && err == nil {
					total.Merge(rec)
				} else {
					procFindings = append(procFindings, rt.Finding{Prop: *prop, Oracle: "process-died", Cluster: classifyDeath(tailFile(base+".stderr", 60)), Case: sj.idx, Tier: *tier, Seed: seed,
						Detail: map[string]any{"exit": fmt.Sprint(err), "stderr_tail": tailFile(base+".stderr", 60)}})
				}
				soloMu.Unlock()
			case <-time.After(4 * timeout):
				cmd.Process.Signal(syscall.SIGQUIT)
				select {
				case <-done:
				case <-time.After(10 * time.Second):
					cmd.Process.Kill()
					<-done
				}
				errf.Close()
				soloMu.Lock()
				if *prop == "C06" {
					procFindings = append(procFindings, rt.Finding{Prop: *prop, Oracle: "hang-confirmed", Cluster: "case did not end alone within the solo limit", Case: sj.idx, Tier: *tier, Seed: seed,
						Detail: map[string]any{"goroutines": tailFile(base+".stderr", 80)}})
				} else {
					inconclusive = append(inconclusive, fmt.Sprintf("case %d exceeded the watchdog twice", sj.idx))
				}
				soloMu.Unlock()
			}
		}()
	}
	soloWG.Wait()
	// race detector reports (C19 is built with -race; GORACE log_path is set by run.sh)
	if raceDir := os.Getenv("VERIF_RACE_DIR"); raceDir != "" {
		viol, harness := collectRaces(raceDir, *prop, *tier, seed)
		procFindings = append(procFindings, viol...)
		total.Counters["race_reports_in_kvql"] += int64(len(viol))
		total.Counters["race_reports_in_harness"] += int64(harness)
		if harness > 0 {
			inconclusive = append(inconclusive, fmt.Sprintf("%d race report(s) involve harness code only (see %s)", harness, raceDir))
		}
	}
	// coverage-guided stage of C06 (run.sh ran go's fuzzing engine and left its log and crashers)
	if fz := os.Getenv("VERIF_FUZZ_DIR"); fz != "" && *prop == "C06" {
		viol, inc := collectFuzz(self, fz, *tier, seed, total)
		procFindings = append(procFindings, viol...)
		inconclusive = append(inconclusive, inc...)
	}
	total.Findings = append(total.Findings, procFindings...)
	for _, f := range procFindings {
		total.ClusterCount[f.Oracle+"|"+f.Cluster]++
		total.Counters["violations"]++
	}

	// known findings: run each listed witness in its own process
	knownRun := []map[string]any{}
	for _, k := range loadKnown() {
		if k.Property != *prop || k.Status != "known" {
			continue
		}
		hit, how := runWitnessProc(self, *prop, k.ID, timeout)
		knownRun = append(knownRun, map[string]any{"id": k.ID, "reproduced": hit, "how": how})
		if hit {
			fmt.Printf("KNOWN-FINDING: property=%s %s %s\n", *prop, k.ID, k.What)
		} else {
			fmt.Printf("NOTE: known finding %s (property %s) did not reproduce on this tree (%s)\n", k.ID, *prop, how)
		}
	}

	// cluster findings, write replay files
	clusters := map[string][]rt.Finding{}
	var order []string
	for _, f := range total.Findings {
		key := f.Oracle + "|" + f.Cluster
		if _, ok := clusters[key]; !ok {
			order = append(order, key)
		}
		clusters[key] = append(clusters[key], f)
	}
	sort.Strings(order)
	exit := 0
	os.MkdirAll(replayDir(), 0o755)
	if old, _ := filepath.Glob(filepath.Join(replayDir(), *prop+"-*.json")); len(old) > 0 {
		for _, f := range old { // witnesses of the previous run of this property
			os.Remove(f)
		}
	}
	harnessBug := false
	clusterSummary := []map[string]any{}
	for i, key := range order {
		f := clusters[key][0]
		if f.Oracle == "uncaught-panic-in-harness" {
			harnessBug = true
		}
		path := filepath.Join(replayDir(), fmt.Sprintf("%s-%016x.json", *prop, rt.HashStr(key)))
		if i < 500 { // a witness per cluster, but not an unbounded number of files
			b, _ := json.MarshalIndent(f, "", " ")
			os.WriteFile(path, b, 0o644)
		}
		clusterSummary = append(clusterSummary, map[string]any{"oracle": f.Oracle, "cluster": f.Cluster, "count": total.ClusterCount[key], "replay": path})
		if f.Oracle == "uncaught-panic-in-harness" {
			continue
		}
		if i < 40 {
			fmt.Printf("VIOLATION property=%s replay=%s\n", *prop, path)
			fmt.Printf("  oracle=%s count=%d cluster=%s\n", f.Oracle, total.ClusterCount[key], oneLine(f.Cluster, 200))
		}
		exit = 1
	}
	if harnessBug {
		inconclusive = append(inconclusive, "a panic escaped inside the harness itself (see replay file with oracle uncaught-panic-in-harness)")
	}

	// adequacy gates
	merged := map[string]int64{}
	for k, v := range total.Counters {
		merged[k] = v
	}
	for k, v := range total.Maxes {
		merged["max:"+k] = v
	}
	merged["distinct"] = total.NumDistinct()
	gates := chk.Gates(*tier, merged)
	for _, g := range gates {
		if !g.OK {
			inconclusive = append(inconclusive, fmt.Sprintf("adequacy gate %q not met: observed %d, need %d", g.Name, g.Observed, g.Need))
		}
	}
	if total.Counters["evaluations"] == 0 {
		inconclusive = append(inconclusive, "no evaluations were observed")
	}

	wall := time.Since(t0).Seconds()
	writeEvidence(chk, *prop, *tier, seed, total, merged, gates, clusterSummary, knownRun, inconclusive, wall, nw)

	fmt.Printf("SUMMARY property=%s tier=%s seed=%d cases=%d evaluations=%d distinct_nontrivial=%d violations=%d clusters=%d wall=%.1fs\n",
		*prop, *tier, seed, total.Counters["cases"], total.Counters["evaluations"], total.NumDistinct(), total.Counters["violations"], len(order), wall)
	if exit == 1 {
		return 1
	}
	if len(inconclusive) > 0 {
		for _, r := range inconclusive {
			fmt.Printf("INCONCLUSIVE property=%s reason=%s\n", *prop, r)
		}
		return 2
	}
	return 0
}

func oneLine(s string, n int) string {
	s = strings.ReplaceAll(s, "\n", " ")
	if len(s) > n {
		s = s[:n] + "..."
	}
	return s
}

func classifyDeath(stderr string) string {
	switch {
	case strings.Contains(stderr, "stack overflow") || strings.Contains(stderr, "goroutine stack exceeds"):
		return "stack exhaustion (fatal, bypasses recover)"
	case strings.Contains(stderr, "out of memory"):
		return "out of memory"
	case strings.Contains(stderr, "fatal error: checkptr"):
		return "checkptr"
	case strings.Contains(stderr, "DATA RACE"):
		return "data race (halt_on_error)"
	case strings.Contains(stderr, "fatal error:"):
		i := strings.Index(stderr, "fatal error:")
		return oneLine(stderr[i:], 80)
	}
	return "worker process died"
}

func tailFile(path string, lines int) string {
	b, err := os.ReadFile(path)
	if err != nil {
		return ""
	}
	// for goroutine dumps the head is what matters (the fatal error line)
	ls := strings.Split(string(b), "\n")
	if len(ls) > lines {
		head := ls[:lines/2]
		tail := ls[len(ls)-lines/2:]
		ls = append(append(head, "..."), tail...)
	}
	return strings.Join(ls, "\n")
}

func runWitnessProc(self, prop, id string, timeout time.Duration) (bool, string) {
	cmd := exec.Command(self, "witness", "-prop", prop, "-id", id)
	cmd.Env = append(os.Environ(), "GOTRACEBACK=single")
	done := make(chan error, 1)
	out := &strings.Builder{}
	cmd.Stdout, cmd.Stderr = out, out
	if err := cmd.Start(); err != nil {
		return false, err.Error()
	}
	go func() { done <- cmd.Wait() }()
	select {
	case err := <-done:
		if err == nil {
			return false, "witness ran clean"
		}
		if ee, ok := err.(*exec.ExitError); ok && ee.ExitCode() == 3 {
			return true, "oracle flagged the witness"
		}
		return true, "witness process died: " + classifyDeath(out.String())
	case <-time.After(4 * timeout):
		cmd.Process.Kill()
		<-done
		return true, "witness did not terminate"
	}
}

func runWitness(args []string) int {
	fs := flag.NewFlagSet("witness", flag.ExitOnError)
	prop := fs.String("prop", "", "")
	id := fs.String("id", "", "")
	verbose := fs.Bool("v", false, "")
	fs.Parse(args)
	chk := rt.Get(*prop)
	if chk == nil {
		return 2
	}
	debug.SetMaxStack(256 << 20)
	for _, k := range loadKnown() {
		if k.ID == *id && k.Property == *prop {
			c := &rt.Ctx{Prop: *prop, Tier: "quick", Seed: 1, Case: -1, R: rt.NewRand(1, *prop, 0), Rec: rt.NewRec(), Avoid: map[string]bool{}, Witness: true, Verbose: *verbose}
			hit := false
			func() {
				defer func() {
					if r := recover(); r != nil {
						hit = true
					}
				}()
				chk.RunWitness(c, k.Witness)
			}()
			if hit || c.WitnessHit {
				return 3
			}
			return 0
		}
	}
	fmt.Fprintln(os.Stderr, "no such known finding")
	return 2
}

// collectRaces parses the race detector's log files: one finding per pair of
// innermost kvql frames; reports whose conflicting accesses are not both in
// package kvql are counted separately (they would be the harness' own races).
func collectRaces(dir, prop, tier string, seed uint64) (viol []rt.Finding, harnessOnly int) {
	files, _ := filepath.Glob(filepath.Join(dir, "race.*"))
	seen := map[string]bool{}
	for _, f := range files {
		b, err := os.ReadFile(f)
		if err != nil {
			continue
		}
		for _, block := range strings.Split(string(b), "==================") {
			if !strings.Contains(block, "WARNING: DATA RACE") {
				continue
			}
			// the first two stacks are the conflicting accesses
			var tops []string
			for _, sec := range strings.Split(block, "\n\n") {
				head := strings.TrimSpace(sec)
				if !(strings.HasPrefix(head, "WARNING: DATA RACE") || strings.HasPrefix(head, "Write at") || strings.HasPrefix(head, "Read at") || strings.HasPrefix(head, "Previous write at") || strings.HasPrefix(head, "Previous read at") || strings.HasPrefix(head, "Atomic") || strings.HasPrefix(head, "Previous atomic")) {
					continue
				}
				top := ""
				for _, line := range strings.Split(sec, "\n") {
					l := strings.TrimSpace(line)
					if l == "" || strings.HasPrefix(l, "WARNING") || strings.HasPrefix(l, "Write at") || strings.HasPrefix(l, "Read at") || strings.HasPrefix(l, "Previous") || strings.HasPrefix(l, "Atomic") || strings.HasPrefix(l, "/") {
						continue
					}
					// innermost frame that belongs to kvql or to the harness (library frames are skipped)
					if !strings.Contains(l, "c4pt0r/kvql.") && !strings.Contains(l, "kvqlverif/") && !strings.HasPrefix(l, "main.") {
						continue
					}
					top = l
					break
				}
				if top != "" {
					tops = append(tops, top)
				}
				if len(tops) == 2 {
					break
				}
			}
			inKvql := len(tops) == 2 && strings.Contains(tops[0], "c4pt0r/kvql.") && strings.Contains(tops[1], "c4pt0r/kvql.")
			if !inKvql {
				harnessOnly++
				continue
			}
			strip := func(s string) string { return strings.TrimSuffix(s, "()") }
			a, b2 := strip(tops[0]), strip(tops[1])
			if a > b2 {
				a, b2 = b2, a
			}
			key := a + " <-> " + b2
			if seen[key] {
				continue
			}
			seen[key] = true
			lines := strings.Split(strings.TrimSpace(block), "\n")
			if len(lines) > 60 {
				lines = lines[:60]
			}
			viol = append(viol, rt.Finding{Prop: prop, Oracle: "data-race", Cluster: key, Case: -1, Tier: tier, Seed: seed, Detail: map[string]any{"report": lines, "log_file": f}})
		}
	}
	return viol, harnessOnly
}

// ---------------------------------------------------------------- replay

func runReplay(args []string) int {
	fs := flag.NewFlagSet("replay", flag.ExitOnError)
	file := fs.String("file", "", "")
	fs.Parse(args)
	b, err := os.ReadFile(*file)
	if err != nil {
		fmt.Fprintln(os.Stderr, err)
		return 2
	}
	var f rt.Finding
	if err := json.Unmarshal(b, &f); err != nil {
		fmt.Fprintln(os.Stderr, err)
		return 2
	}
	chk := rt.Get(f.Prop)
	if chk == nil {
		return 2
	}
	debug.SetMaxStack(256 << 20)
	fmt.Printf("REPLAY property=%s tier=%s seed=%d case=%d recorded oracle=%s\n", f.Prop, f.Tier, f.Seed, f.Case, f.Oracle)
	if fi, ok := f.Detail["fuzz_input"].(map[string]any); ok {
		q, _ := fi["query"].(string)
		a, _ := fi["store_sel"].(float64)
		b, _ := fi["mode_sel"].(float64)
		fmt.Printf("input found by the coverage-guided stage: query %q store_sel %d mode_sel %d\n", q, int(a), int(b))
		v, st := checks.C06FuzzOne(q, byte(a), byte(b))
		fmt.Printf("status=%s verdict=%q\n", st, v)
		if v != "" {
			fmt.Printf("VIOLATION property=%s replay=%s\n", f.Prop, *file)
			return 1
		}
		fmt.Println("REPLAY: the recorded input no longer violates the property")
		return 0
	}
	if f.Case < 0 {
		fmt.Println("this finding was made by the coordinator from the race detector's log (it is not tied to one case); the recorded report:")
		b, _ := json.MarshalIndent(f.Detail, "", " ")
		fmt.Println(string(b))
		fmt.Printf("VIOLATION property=%s replay=%s\n", f.Prop, *file)
		return 1
	}
	rec := rt.NewRec()
	c := &rt.Ctx{Prop: f.Prop, Tier: f.Tier, Seed: f.Seed, Case: f.Case, R: rt.NewRand(f.Seed, f.Prop, uint64(f.Case)), Rec: rec, Avoid: avoidSet(f.Prop), Verbose: true}
	chk.Run(c)
	if rec.Counters["violations"] > 0 {
		fmt.Printf("VIOLATION property=%s replay=%s\n", f.Prop, *file)
		return 1
	}
	fmt.Println("REPLAY: the recorded case no longer violates the property")
	return 0
}

// ---------------------------------------------------------------- evidence

func writeEvidence(chk rt.Check, prop, tier string, seed uint64, total *rt.Rec, merged map[string]int64, gates []rt.Gate, clusters []map[string]any, knownRun []map[string]any, inconclusive []string, wall float64, nw int) {
	notJudged := map[string]int64{}
	monitors := map[string]int64{}
	for k, v := range merged {
		if strings.HasPrefix(k, "not_judged:") {
			notJudged[strings.TrimPrefix(k, "not_judged:")] = v
		} else {
			monitors[k] = v
		}
	}
	samples := total.Samples
	if len(samples) == 0 {
		samples = []any{"(no sample recorded)"}
	}
	cov := map[string]any{
		"evaluations":         total.Counters["evaluations"],
		"distinct_nontrivial": total.NumDistinct(),
		"rule":                chk.Rule(),
		"samples":             samples,
		"exhaustive":          chk.Exhaustive(tier) && len(inconclusive) == 0,
		"cases":               total.Counters["cases"],
		"monitors":            monitors,
		"not_judged":          notJudged,
		"gates":               gates,
		"known_findings_run":  knownRun,
		"violation_clusters":  clusters,
		"inconclusive":        inconclusive,
		"workers":             nw,
		"notes":               total.Notes,
	}
	ev := map[string]any{
		"property_id": prop,
		"tier":        tier,
		"seed":        seed,
		"level":       chk.Level(),
		"coverage":    cov,
		"assumptions": chk.Assumptions(),
		"wall_s":      wall,
		"violations":  total.Counters["violations"],
	}
	b, _ := json.MarshalIndent(ev, "", " ")
	os.MkdirAll(evidenceDir(), 0o755)
	os.WriteFile(filepath.Join(evidenceDir(), prop+".json"), b, 0o644)
}

// ---------------------------------------------------------------- C06 coverage-guided stage

// parseCorpusFile reads a "go test fuzz v1" corpus entry of FuzzStatement(string, byte, byte).
func parseCorpusFile(path string) (q string, a, b byte, err error) {
	data, err := os.ReadFile(path)
	if err != nil {
		return
	}
	lines := strings.Split(strings.TrimSpace(string(data)), "\n")
	if len(lines) != 4 || !strings.HasPrefix(lines[0], "go test fuzz v1") {
		return "", 0, 0, fmt.Errorf("unexpected corpus file format")
	}
	arg := func(l, typ string) (string, error) {
		l = strings.TrimSpace(l)
		if !strings.HasPrefix(l, typ+"(") || !strings.HasSuffix(l, ")") {
			return "", fmt.Errorf("unexpected corpus line %q", l)
		}
		return l[len(typ)+1 : len(l)-1], nil
	}
	qs, err := arg(lines[1], "string")
	if err != nil {
		return
	}
	if q, err = strconv.Unquote(qs); err != nil {
		return
	}
	bs := [2]byte{}
	for i := 0; i < 2; i++ {
		var t string
		if t, err = arg(lines[2+i], "byte"); err != nil {
			return
		}
		var r rune
		if r, _, _, err = strconv.UnquoteChar(strings.Trim(t, "'"), '\''); err != nil {
			return
		}
		bs[i] = byte(r)
	}
	return q, bs[0], bs[1], nil
}

func runFuzzOne(args []string) int {
	fs := flag.NewFlagSet("fuzzone", flag.ExitOnError)
	file := fs.String("file", "", "")
	fs.Parse(args)
	q, a, b, err := parseCorpusFile(*file)
	if err != nil {
		fmt.Println("FUZZONE unreadable:", err)
		return 3
	}
	debug.SetMaxStack(256 << 20)
	v, st := checks.C06FuzzOne(q, a, b)
	fmt.Printf("FUZZONE status=%s verdict=%s\n", st, v)
	if v != "" {
		return 1
	}
	return 0
}

var fuzzSeedFail = regexp.MustCompile(`failure while testing seed corpus entry: FuzzStatement/seed#(\d+)`)
var fuzzProgress = regexp.MustCompile(`execs: (\d+) .*new interesting: (\d+) \(total: (\d+)\)`)

// collectFuzz turns the fuzzing engine's output into counters and findings. Every crasher the
// engine wrote is re-run alone in a fresh process on the tree under test; only a confirmed one
// counts as a violation (an unconfirmed one makes the run inconclusive).
func collectFuzz(self, dir, tier string, seed uint64, total *rt.Rec) (viol []rt.Finding, inconclusive []string) {
	logb, _ := os.ReadFile(filepath.Join(dir, "log"))
	exitb, _ := os.ReadFile(filepath.Join(dir, "exit"))
	exit := strings.TrimSpace(string(exitb))
	var execs, interesting, corpus int64
	for _, m := range fuzzProgress.FindAllStringSubmatch(string(logb), -1) {
		execs, _ = strconv.ParseInt(m[1], 10, 64)
		interesting, _ = strconv.ParseInt(m[2], 10, 64)
		corpus, _ = strconv.ParseInt(m[3], 10, 64)
	}
	total.Counters["fuzz_execs"] += execs
	total.Counters["fuzz_new_coverage_inputs"] += interesting
	total.Counters["fuzz_corpus_entries"] += corpus
	total.Counters["evaluations"] += execs
	// a failing seed is reported by index only: write it out as a corpus entry so that it is
	// confirmed and recorded like an engine-found crasher
	for _, m := range fuzzSeedFail.FindAllStringSubmatch(string(logb), -1) {
		idx, _ := strconv.Atoi(m[1])
		n := 300
		if v, err := strconv.Atoi(os.Getenv("VERIF_FUZZ_SEEDS")); err == nil {
			n = v
		}
		seeds := checks.C06FuzzSeeds(n)
		if idx < len(seeds) {
			cd := filepath.Join(dir, "testdata", "fuzz", "FuzzStatement")
			os.MkdirAll(cd, 0o755)
			os.WriteFile(filepath.Join(cd, fmt.Sprintf("seed-%d", idx)), []byte(fmt.Sprintf("go test fuzz v1\nstring(%q)\nbyte(%q)\nbyte(%q)\n", seeds[idx], rune(byte(idx)), rune(byte(idx*7)))), 0o644)
		}
	}
	crashers, _ := filepath.Glob(filepath.Join(dir, "testdata", "fuzz", "FuzzStatement", "*"))
	total.Counters["fuzz_crashers_written"] += int64(len(crashers))
	switch {
	case exit == "exit=build-failed":
		inconclusive = append(inconclusive, "coverage-guided stage: the fuzz binary did not build (see "+filepath.Join(dir, "build.log")+")")
	case exit == "exit=124" || exit == "exit=131":
		inconclusive = append(inconclusive, "coverage-guided stage: wall-clock watchdog fired before the execution budget was used up")
	case exit != "exit=0" && len(crashers) == 0:
		inconclusive = append(inconclusive, "coverage-guided stage ended with "+exit+" without writing a crasher (see "+filepath.Join(dir, "log")+")")
	}
	for _, cf := range crashers {
		q, a, b, err := parseCorpusFile(cf)
		if err != nil {
			inconclusive = append(inconclusive, "coverage-guided stage: unreadable crasher "+cf)
			continue
		}
		cmd := exec.Command(self, "fuzzone", "-file", cf)
		cmd.Env = append(os.Environ(), "GOTRACEBACK=all")
		outf, _ := os.Create(cf + ".confirm")
		cmd.Stdout, cmd.Stderr = outf, outf
		cmd.Start()
		done := make(chan error, 1)
		go func() { done <- cmd.Wait() }()
		detail := map[string]any{"fuzz_input": map[string]any{"query": q, "store_sel": int(a), "mode_sel": int(b)}, "found_by": "go native fuzzing (coverage-guided stage)"}
		select {
		case err := <-done:
			outf.Close()
			tail := tailFile(cf+".confirm", 60)
			code := 0
			if ee, ok := err.(*exec.ExitError); ok {
				code = ee.ExitCode()
			} else if err != nil {
				code = -1
			}
			detail["confirmation_run"] = tail
			switch code {
			case 0:
				// the monitors are a deterministic function of the input: an input that passes
				// alone was flagged for a reason outside the library (a fuzz worker killed or
				// starved); it is recorded, not judged
				total.Counters["fuzz_crashers_not_reproduced"]++
				if total.Notes == nil {
					total.Notes = map[string]string{}
				}
				total.Notes["fuzz crasher "+filepath.Base(cf)] = fmt.Sprintf("did not reproduce when run alone (query %q)", oneLine(q, 120))
			case 1:
				verdict := ""
				for _, l := range strings.Split(tail, "\n") {
					if i := strings.Index(l, "verdict="); i >= 0 {
						verdict = l[i+8:]
					}
				}
				viol = append(viol, rt.Finding{Prop: "C06", Oracle: "fuzz-confirmed", Cluster: fuzzCluster(verdict), Case: -2, Tier: tier, Seed: seed, Detail: detail})
			default:
				viol = append(viol, rt.Finding{Prop: "C06", Oracle: "process-died", Cluster: classifyDeath(tail), Case: -2, Tier: tier, Seed: seed, Detail: detail})
			}
		case <-time.After(120 * time.Second):
			cmd.Process.Signal(syscall.SIGQUIT)
			select {
			case <-done:
			case <-time.After(10 * time.Second):
				cmd.Process.Kill()
				<-done
			}
			outf.Close()
			detail["goroutines"] = tailFile(cf+".confirm", 80)
			viol = append(viol, rt.Finding{Prop: "C06", Oracle: "hang-confirmed", Cluster: "fuzz input did not end alone within 120 s", Case: -2, Tier: tier, Seed: seed, Detail: detail})
		}
	}
	return
}

// fuzzCluster keeps the stable part of a verdict (kind of failure and frame, not the data).
func fuzzCluster(v string) string {
	if i := strings.Index(v, " (store "); i >= 0 {
		v = v[:i]
	}
	if i := strings.Index(v, ": "); i >= 0 && strings.HasPrefix(v, "panic") {
		head, rest := v[:i], v[i+2:]
		for _, k := range []string{"slice bounds out of range", "index out of range", "interface conversion", "nil pointer", "nil map"} {
			if strings.Contains(rest, k) {
				return head + ": " + k
			}
		}
		if len(rest) > 60 {
			rest = rest[:60]
		}
		return head + ": " + rest
	}
	return v
}
