#!/usr/bin/env python3
"""Merges the rows of a partial matrix run (some defects x all checks) into seeded/MATRIX.tsv:
the rows of every defect present in the new file replace that defect's old rows.
usage: seeded_merge.py new.tsv [matrix.tsv]"""
import sys, os, collections
V = os.path.dirname(os.path.dirname(os.path.abspath(__file__)))
new = sys.argv[1]; mx = sys.argv[2] if len(sys.argv) > 2 else os.path.join(V, "seeded/MATRIX.tsv")
rows = collections.OrderedDict()
def load(f, replace):
    seen = set()
    for l in open(f):
        p = l.rstrip("\n").split("\t")
        if len(p) < 3: continue
        if replace and p[0] not in seen:
            for k in [k for k in rows if k[0] == p[0]]: del rows[k]
            seen.add(p[0])
        rows[(p[0], p[1])] = l if l.endswith("\n") else l + "\n"
load(mx, False); n0 = len(rows); load(new, True)
open(mx, "w").writelines(rows[k] for k in sorted(rows))
print("merged: %d rows before, %d after" % (n0, len(rows)))
