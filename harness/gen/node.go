// Package gen owns the expression/statement trees the checks generate, and the
// printers that turn them into query text. The trees are the harness's own
// (independent of kvql's AST) so that reference models can judge what kvql
// returns for the printed text.
package gen

import (
	"fmt"
	"strconv"
	"strings"

	"kvqlverif/rt"
)

type T byte // static type

const (
	TS T = iota + 1 // text
	TN              // number
	TB              // bool
	TL              // list
	TJ              // json
)

func (t T) String() string { return [...]string{"?", "str", "num", "bool", "list", "json"}[t] }

type Kind byte

const (
	KKey Kind = iota
	KValue
	KStr
	KInt
	KFloat
	KBool
	KBin     // A[0] op A[1]
	KNot     // ! A[0]
	KCall    // Op(A...)
	KIn      // A[0] in (A[1:]...)      or, with InExpr, A[0] in A[1]
	KBetween // A[0] between A[1] and A[2]
	KIndex   // A[0][S] or A[0][I]
	KRef     // alias reference: name Op, definition Def
)

type Node struct {
	K      Kind
	T      T
	Op     string // KBin: = != ^= ~= > >= < <= + - * / and or ; KCall: function name; KRef: alias name
	Sym    bool   // and/or printed as & / |
	S      string // KStr text; KIndex string key; KFloat literal spelling
	I      int64
	F      float64
	B      bool
	A      []*Node
	IdxStr bool
	InExpr bool
	Def    *Node
	Quote  byte
	ET     T // element type of a list-typed node (TS for split, TN for list/int_list/...)
}

// ---- constructors

func Key() *Node   { return &Node{K: KKey, T: TS} }
func Value() *Node { return &Node{K: KValue, T: TS} }
func Str(s string) *Node {
	q := byte('\'')
	if strings.IndexByte(s, '\'') >= 0 {
		q = '"'
	}
	return &Node{K: KStr, T: TS, S: s, Quote: q}
}
func Int(i int64) *Node { return &Node{K: KInt, T: TN, I: i} }

// IntPadded is the integer literal i written with leading zeros (010 is ten).
func IntPadded(i int64, width int) *Node {
	return &Node{K: KInt, T: TN, I: i, S: fmt.Sprintf("%0*d", width, i)}
}

// Float takes the literal spelling (must contain '.') so that the text is
// exactly what is printed.
func Float(spelling string) *Node {
	f, _ := strconv.ParseFloat(spelling, 64)
	return &Node{K: KFloat, T: TN, S: spelling, F: f}
}
func Bool(b bool) *Node { return &Node{K: KBool, T: TB, B: b} }

func Bin(op string, l, r *Node) *Node {
	n := &Node{K: KBin, Op: op, A: []*Node{l, r}}
	switch op {
	case "+":
		if l.T == TS {
			n.T = TS
		} else {
			n.T = TN
		}
	case "-", "*", "/":
		n.T = TN
	default:
		n.T = TB
	}
	if op == "and" || op == "or" {
		n.Sym = true
	}
	return n
}
func And(l, r *Node) *Node { return Bin("and", l, r) }
func Or(l, r *Node) *Node  { return Bin("or", l, r) }
func Not(x *Node) *Node    { return &Node{K: KNot, T: TB, A: []*Node{x}} }
func In(x *Node, items ...*Node) *Node {
	return &Node{K: KIn, T: TB, A: append([]*Node{x}, items...)}
}
func InExpr(x, list *Node) *Node {
	return &Node{K: KIn, T: TB, A: []*Node{x, list}, InExpr: true}
}
func Between(x, lo, hi *Node) *Node {
	return &Node{K: KBetween, T: TB, A: []*Node{x, lo, hi}}
}
func IndexI(base *Node, i int64) *Node {
	return &Node{K: KIndex, T: TS, A: []*Node{base}, I: i}
}
func IndexS(base *Node, k string) *Node {
	return &Node{K: KIndex, T: TS, A: []*Node{base}, S: k, IdxStr: true}
}
func Ref(name string, def *Node) *Node {
	return &Node{K: KRef, T: def.T, Op: name, Def: def, ET: def.ET}
}

var funcRet = map[string]T{
	"lower": TS, "upper": TS, "int": TN, "float": TN, "str": TS, "is_int": TB, "is_float": TB, "substr": TS,
	"json": TJ, "split": TL, "list": TL, "float_list": TL, "int_list": TL, "flist": TL, "ilist": TL, "len": TN,
	"join": TS, "strlen": TN, "cosine_distance": TN, "l2_distance": TN,
	// aggregates
	"count": TN, "sum": TN, "avg": TN, "min": TN, "max": TN, "quantile": TN, "json_arrayagg": TS, "group_concat": TS,
}

var aggrNames = map[string]bool{"count": true, "sum": true, "avg": true, "min": true, "max": true, "quantile": true, "json_arrayagg": true, "group_concat": true}

func IsAggr(name string) bool { return aggrNames[name] }

func Call(name string, args ...*Node) *Node {
	n := &Node{K: KCall, T: funcRet[name], Op: name, A: args}
	if n.T == TL {
		n.ET = TN
		if name == "split" {
			n.ET = TS
		}
	}
	return n
}

// HasAggr reports whether the tree contains an aggregate call.
func (n *Node) HasAggr() bool {
	if n.K == KCall && aggrNames[n.Op] {
		return true
	}
	for _, a := range n.A {
		if a.HasAggr() {
			return true
		}
	}
	return false
}

func (n *Node) Walk(f func(*Node)) {
	f(n)
	for _, a := range n.A {
		a.Walk(f)
	}
}

// Expand returns a copy with every alias reference replaced by its definition.
func (n *Node) Expand() *Node {
	if n.K == KRef {
		return n.Def.Expand()
	}
	c := *n
	c.A = make([]*Node, len(n.A))
	for i, a := range n.A {
		c.A[i] = a.Expand()
	}
	return &c
}

func (n *Node) Clone() *Node {
	c := *n
	c.A = make([]*Node, len(n.A))
	for i, a := range n.A {
		c.A[i] = a.Clone()
	}
	return &c
}

func (n *Node) Depth() int {
	d := 0
	for _, a := range n.A {
		if x := a.Depth(); x > d {
			d = x
		}
	}
	return d + 1
}

// ---- printing

type Style struct {
	Paren int      // 0 = safe (parenthesise every nested operator), 1 = minimal (by precedence), 2 = full (every operator incl. top), 3 = random extra
	R     *rt.Rand // randomness for case / spacing / extra parens (nil = plain)
	Case  bool     // randomise letter case of keywords, functions, and/or
	Tight bool     // drop optional blanks where tokens cannot fuse
	Words int      // and/or spelling: 0 = as in the node (Sym), 1 = always symbols, 2 = always words
}

var Plain = Style{}

func prec(n *Node) int {
	switch n.K {
	case KBin:
		switch n.Op {
		case "or":
			return 1
		case "and":
			return 2
		case "+", "-":
			return 4
		case "*", "/":
			return 5
		default:
			return 3
		}
	case KIn, KBetween:
		return 3
	case KNot:
		return 6
	}
	return 7
}

func (s Style) word(w string) string {
	if !s.Case || s.R == nil {
		return w
	}
	switch s.R.Intn(3) {
	case 0:
		return strings.ToUpper(w)
	case 1:
		b := []byte(w)
		for i := range b {
			if s.R.Bool() && b[i] >= 'a' && b[i] <= 'z' {
				b[i] -= 32
			}
		}
		return string(b)
	}
	return w
}

func (s Style) opText(n *Node) string {
	if n.Op == "and" || n.Op == "or" {
		sym := n.Sym
		if s.Words == 1 {
			sym = true
		} else if s.Words == 2 {
			sym = false
		}
		if sym {
			if n.Op == "and" {
				return "&"
			}
			return "|"
		}
		return s.word(n.Op)
	}
	return n.Op
}

func quote(n *Node) string {
	q := n.Quote
	if q == 0 {
		q = '\''
	}
	return string(q) + n.S + string(q)
}

// Print renders the tree. The default style parenthesises every operator
// nested inside another operator, which is unambiguous whatever the
// precedence table says.
func (s Style) Print(n *Node) string {
	var b strings.Builder
	s.print(&b, n, 0, false)
	return b.String()
}

func Print(n *Node) string { return Plain.Print(n) }

// needParen decides whether child c of parent p needs parentheses under the
// documented precedence (minimal style). right = c is the right operand.
func needParenMin(pp int, c *Node, right bool) bool {
	cp := prec(c)
	if cp < pp {
		return true
	}
	if cp == pp && right {
		return true // left-associative: a-(b-c) needs them
	}
	return false
}

func (s Style) print(b *strings.Builder, n *Node, parentPrec int, right bool) {
	isOp := n.K == KBin || n.K == KIn || n.K == KBetween
	paren := false
	switch s.Paren {
	case 0:
		paren = isOp && parentPrec > 0
	case 1:
		paren = isOp && parentPrec > 0 && needParenMin(parentPrec, n, right)
		if n.K == KNot && parentPrec > 6 {
			paren = true
		}
	case 2:
		paren = isOp
	case 3:
		paren = isOp && parentPrec > 0 && needParenMin(parentPrec, n, right)
		if !paren && s.R != nil && s.R.Chance(1, 3) {
			paren = true
		}
	}
	if paren {
		b.WriteByte('(')
	}
	sp := " "
	if s.Tight {
		sp = ""
	}
	switch n.K {
	case KKey:
		b.WriteString(s.word("key"))
	case KValue:
		b.WriteString(s.word("value"))
	case KStr:
		b.WriteString(quote(n))
	case KInt:
		if n.I < 0 {
			// the language has no negative literals
			b.WriteString("(0 - " + strconv.FormatInt(-n.I, 10) + ")")
		} else if n.S != "" {
			b.WriteString(n.S) // a spelling with leading zeros: still a decimal literal
		} else {
			b.WriteString(strconv.FormatInt(n.I, 10))
		}
	case KFloat:
		if strings.HasPrefix(n.S, "-") {
			b.WriteString("(0 - " + n.S[1:] + ")")
		} else {
			b.WriteString(n.S)
		}
	case KBool:
		if n.B {
			b.WriteString(s.word("true"))
		} else {
			b.WriteString(s.word("false"))
		}
	case KBin:
		p := prec(n)
		s.print(b, n.A[0], p, false)
		op := s.opText(n)
		wordy := op[0] >= 'A' && op[0] <= 'z' && op[0] != '^'
		if wordy || !s.Tight {
			b.WriteString(" " + op + " ")
		} else {
			b.WriteString(op)
		}
		s.print(b, n.A[1], p, true)
	case KNot:
		b.WriteByte('!')
		c := n.A[0]
		if c.K == KBin || c.K == KIn || c.K == KBetween {
			b.WriteByte('(')
			s.print(b, c, 0, false)
			b.WriteByte(')')
		} else {
			s.print(b, c, 6, true)
		}
	case KCall:
		b.WriteString(s.word(n.Op))
		b.WriteByte('(')
		for i, a := range n.A {
			if i > 0 {
				b.WriteString("," + sp)
			}
			s.print(b, a, 0, false)
		}
		b.WriteByte(')')
	case KIn:
		s.print(b, n.A[0], 3, false)
		b.WriteString(" " + s.word("in") + " ")
		if n.InExpr {
			// never wrap the list-valued operand: `in (expr)` is a list literal
			s2 := s
			if s2.Paren == 3 {
				s2.Paren = 1
			}
			s2.print(b, n.A[1], 4, true)
		} else {
			b.WriteByte('(')
			for i, a := range n.A[1:] {
				if i > 0 {
					b.WriteString("," + sp)
				}
				s.print(b, a, 0, false)
			}
			b.WriteByte(')')
		}
	case KBetween:
		s.print(b, n.A[0], 3, false)
		b.WriteString(" " + s.word("between") + " ")
		s.print(b, n.A[1], 4, true)
		b.WriteString(" " + s.word("and") + " ")
		s.print(b, n.A[2], 4, true)
	case KIndex:
		s.print(b, n.A[0], 7, false)
		b.WriteByte('[')
		if n.IdxStr {
			b.WriteString("'" + n.S + "'")
		} else {
			b.WriteString(strconv.FormatInt(n.I, 10))
		}
		b.WriteByte(']')
	case KRef:
		b.WriteString(n.Op)
	}
	if paren {
		b.WriteByte(')')
	}
}

// Shape renders the tree with literals abstracted, for clustering findings.
func Shape(n *Node) string {
	var b strings.Builder
	shape(&b, n)
	s := b.String()
	if len(s) > 140 {
		s = s[:140]
	}
	return s
}

func shape(b *strings.Builder, n *Node) {
	switch n.K {
	case KKey:
		b.WriteString("key")
	case KValue:
		b.WriteString("value")
	case KStr:
		b.WriteString("'S'")
	case KInt:
		b.WriteString("I")
	case KFloat:
		b.WriteString("F")
	case KBool:
		b.WriteString(strconv.FormatBool(n.B))
	case KBin:
		b.WriteByte('(')
		shape(b, n.A[0])
		b.WriteString(" " + n.Op + " ")
		shape(b, n.A[1])
		b.WriteByte(')')
	case KNot:
		b.WriteString("!")
		shape(b, n.A[0])
	case KCall:
		b.WriteString(n.Op + "(")
		for i, a := range n.A {
			if i > 0 {
				b.WriteByte(',')
			}
			shape(b, a)
		}
		b.WriteByte(')')
	case KIn:
		shape(b, n.A[0])
		b.WriteString(" in ")
		if n.InExpr {
			shape(b, n.A[1])
		} else {
			b.WriteString("(..)")
		}
	case KBetween:
		shape(b, n.A[0])
		b.WriteString(" between ")
		shape(b, n.A[1])
		b.WriteString(" and ")
		shape(b, n.A[2])
	case KIndex:
		shape(b, n.A[0])
		if n.IdxStr {
			b.WriteString("['k']")
		} else {
			b.WriteString("[i]")
		}
	case KRef:
		b.WriteString("@" + n.T.String())
	}
}
